// Spec-only prelude: hypothesis predicates, trusted stubs, arithmetic lemmas.
// Contains no executable code of the repository.

// ---------------------------------------------------------------- trusted stubs
/// R1: `panic!(..)` in the repository text becomes a call of this function.
/// A panic never returns, hence `ensures false`.
#[verifier::external_body]
pub fn ohsl_panic(msg: &str) -> !
    ensures false,
{
    panic!("{}", msg)
}

/// Used only by the vacuity variant of the generated file.
#[verifier::external_body]
pub fn ohsl_unreached<A>() -> A
    requires false,
{
    unreachable!()
}

// ---------------------------------------------------------------- hypotheses on the element type
/// H_plain: clone is the identity, exec == decides spec equality.
pub open spec fn h_clone<T: Clone>() -> bool {
    &&& forall|a: T, b: T| #[trigger] call_ensures(T::clone, (&a,), b) ==> a == b
    &&& forall|a: T, b: T| #[trigger] cloned(a, b) ==> a == b
}

pub open spec fn h_eq<T: PartialEq>() -> bool {
    &&& T::obeys_eq_spec()
    &&& forall|a: T, b: T| #[trigger] a.eq_spec(&b) == (a == b)
}

/// H_total for the four binary operators: no operation traps, results are the spec terms.
pub open spec fn h_ops<T: Add<Output = T> + Sub<Output = T> + Mul<Output = T> + Div<Output = T>>() -> bool {
    &&& forall|a: T, b: T| #[trigger] a.add_req(b)
    &&& forall|a: T, b: T| #[trigger] a.sub_req(b)
    &&& forall|a: T, b: T| #[trigger] a.mul_req(b)
    &&& forall|a: T, b: T| #[trigger] a.div_req(b)
    &&& <T as AddSpec<T>>::obeys_add_spec()
    &&& <T as SubSpec<T>>::obeys_sub_spec()
    &&& <T as MulSpec<T>>::obeys_mul_spec()
    &&& <T as DivSpec<T>>::obeys_div_spec()
}

/// Compound assignment equals the binary operator (and never traps).
pub open spec fn h_assign<T: Add<Output = T> + Sub<Output = T> + Mul<Output = T> + Div<Output = T>
        + AddAssign + SubAssign + MulAssign + DivAssign>() -> bool {
    &&& forall|a: T, b: T| #[trigger] a.add_assign_req(b)
    &&& forall|a: T, b: T| #[trigger] a.sub_assign_req(b)
    &&& forall|a: T, b: T| #[trigger] a.mul_assign_req(b)
    &&& forall|a: T, b: T| #[trigger] a.div_assign_req(b)
    &&& <T as AddAssignSpec<T>>::obeys_add_assign_spec()
    &&& <T as SubAssignSpec<T>>::obeys_sub_assign_spec()
    &&& <T as MulAssignSpec<T>>::obeys_mul_assign_spec()
    &&& <T as DivAssignSpec<T>>::obeys_div_assign_spec()
    &&& forall|a: T, b: T| #[trigger] a.add_assign_spec(b) == a.add_spec(b)
    &&& forall|a: T, b: T| #[trigger] a.sub_assign_spec(b) == a.sub_spec(b)
    &&& forall|a: T, b: T| #[trigger] a.mul_assign_spec(b) == a.mul_spec(b)
    &&& forall|a: T, b: T| #[trigger] a.div_assign_spec(b) == a.div_spec(b)
}

/// The hypothesis of the structural layer for a `Number` element type.
pub open spec fn h_numops<T: Number>() -> bool {
    &&& h_eq::<T>()
    &&& h_ops::<T>()
    &&& h_assign::<T>()
}

pub open spec fn h_num<T: Number + Clone>() -> bool {
    &&& h_clone::<T>()
    &&& h_numops::<T>()
}

pub open spec fn h_neg<T: Neg<Output = T>>() -> bool {
    &&& forall|a: T| #[trigger] a.neg_req()
    &&& <T as NegSpec>::obeys_neg_spec()
}

// ---------------------------------------------------------------- index arithmetic
pub proof fn lemma_idx(i: int, j: int, rows: int, cols: int)
    requires 0 <= i < rows, 0 <= j < cols,
    ensures 0 <= i * cols + j < rows * cols,
{
    assert(i * cols + j < rows * cols) by (nonlinear_arith)
        requires 0 <= i < rows, 0 <= j < cols;
    assert(0 <= i * cols) by (nonlinear_arith)
        requires 0 <= i, 0 <= cols;
}

pub proof fn lemma_idx_inj(i: int, j: int, a: int, b: int, cols: int)
    requires 0 <= j < cols, 0 <= b < cols, 0 <= i, 0 <= a, i * cols + j == a * cols + b,
    ensures i == a && j == b,
{
    assert(i == a) by (nonlinear_arith)
        requires 0 <= j < cols, 0 <= b < cols, 0 <= i, 0 <= a, i * cols + j == a * cols + b;
}

// ---------------------------------------------------------------- assumed contracts of std functions (no vstd spec)
pub assume_specification<T> [<[T]>::swap] (s: &mut [T], a: usize, b: usize)
    requires a < old(s)@.len(), b < old(s)@.len(),
    ensures final(s)@ == old(s)@.update(a as int, old(s)@[b as int]).update(b as int, old(s)@[a as int]);
