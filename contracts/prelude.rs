// Spec-only prelude: hypothesis predicates, trusted stubs, arithmetic lemmas.
// Contains no executable code of the repository.

// ---------------------------------------------------------------- trusted stubs
/// R1: `panic!(..)` in the repository text becomes a call of this function.
/// A panic never returns, hence `ensures false`.
#[verifier::external_body]
pub fn ohsl_panic(msg: &str) -> !
    ensures false,
{
    panic!("{}", msg)
}

/// R1 with a stated rejection condition (`@panics only_if COND`): the panic may be reached only when COND holds,
/// so a guard that rejects more than the contract allows fails this precondition.
#[verifier::external_body]
pub fn ohsl_panic_when(Ghost(allowed): Ghost<bool>, msg: &str) -> !
    requires allowed,
    ensures false,
{
    panic!("{}", msg)
}

/// Used only by the vacuity variant of the generated file.
#[verifier::external_body]
pub fn ohsl_unreached<A>() -> A
    requires false,
{
    unreachable!()
}

// ---------------------------------------------------------------- hypotheses on the element type
/// H_plain: clone is the identity, exec == decides spec equality.
pub open spec fn h_clone<T: Clone>() -> bool {
    &&& forall|a: T, b: T| #[trigger] call_ensures(T::clone, (&a,), b) ==> a == b
    &&& forall|a: T, b: T| #[trigger] cloned(a, b) ==> a == b
}

pub open spec fn h_eq<T: PartialEq>() -> bool {
    &&& T::obeys_eq_spec()
    &&& forall|a: T, b: T| #[trigger] a.eq_spec(&b) == (a == b)
}

/// H_total for the binary operators: no operation traps, results are the spec terms.
pub open spec fn h_add<T: Add<Output = T>>() -> bool {
    &&& forall|a: T, b: T| #[trigger] a.add_req(b)
    &&& <T as AddSpec<T>>::obeys_add_spec()
}
pub open spec fn h_sub<T: Sub<Output = T>>() -> bool {
    &&& forall|a: T, b: T| #[trigger] a.sub_req(b)
    &&& <T as SubSpec<T>>::obeys_sub_spec()
}
pub open spec fn h_mul<T: Mul<Output = T>>() -> bool {
    &&& forall|a: T, b: T| #[trigger] a.mul_req(b)
    &&& <T as MulSpec<T>>::obeys_mul_spec()
}
pub open spec fn h_div<T: Div<Output = T>>() -> bool {
    &&& forall|a: T, b: T| #[trigger] a.div_req(b)
    &&& <T as DivSpec<T>>::obeys_div_spec()
}
pub open spec fn h_ops<T: Add<Output = T> + Sub<Output = T> + Mul<Output = T> + Div<Output = T>>() -> bool {
    h_add::<T>() && h_sub::<T>() && h_mul::<T>() && h_div::<T>()
}

/// Compound assignment equals the binary operator (and never traps).
pub open spec fn h_assign<T: Add<Output = T> + Sub<Output = T> + Mul<Output = T> + Div<Output = T>
        + AddAssign + SubAssign + MulAssign + DivAssign>() -> bool {
    &&& forall|a: T, b: T| #[trigger] a.add_assign_req(b)
    &&& forall|a: T, b: T| #[trigger] a.sub_assign_req(b)
    &&& forall|a: T, b: T| #[trigger] a.mul_assign_req(b)
    &&& forall|a: T, b: T| #[trigger] a.div_assign_req(b)
    &&& <T as AddAssignSpec<T>>::obeys_add_assign_spec()
    &&& <T as SubAssignSpec<T>>::obeys_sub_assign_spec()
    &&& <T as MulAssignSpec<T>>::obeys_mul_assign_spec()
    &&& <T as DivAssignSpec<T>>::obeys_div_assign_spec()
    &&& forall|a: T, b: T| #[trigger] a.add_assign_spec(b) == a.add_spec(b)
    &&& forall|a: T, b: T| #[trigger] a.sub_assign_spec(b) == a.sub_spec(b)
    &&& forall|a: T, b: T| #[trigger] a.mul_assign_spec(b) == a.mul_spec(b)
    &&& forall|a: T, b: T| #[trigger] a.div_assign_spec(b) == a.div_spec(b)
}

/// The hypothesis of the structural layer for a `Number` element type.
pub open spec fn h_numops<T: Number>() -> bool {
    &&& h_eq::<T>()
    &&& h_ops::<T>()
    &&& h_assign::<T>()
}

pub open spec fn h_num<T: Number + Clone>() -> bool {
    &&& h_clone::<T>()
    &&& h_numops::<T>()
}

pub open spec fn h_neg<T: Neg<Output = T>>() -> bool {
    &&& forall|a: T| #[trigger] a.neg_req()
    &&& <T as NegSpec>::obeys_neg_spec()
}

// ---------------------------------------------------------------- index arithmetic
pub proof fn lemma_idx(i: int, j: int, rows: int, cols: int)
    requires 0 <= i < rows, 0 <= j < cols,
    ensures 0 <= i * cols + j < rows * cols,
{
    assert(i * cols + j < rows * cols) by (nonlinear_arith)
        requires 0 <= i < rows, 0 <= j < cols;
    assert(0 <= i * cols) by (nonlinear_arith)
        requires 0 <= i, 0 <= cols;
}

pub proof fn lemma_idx_inj(i: int, j: int, a: int, b: int, cols: int)
    requires 0 <= j < cols, 0 <= b < cols, 0 <= i, 0 <= a, i * cols + j == a * cols + b,
    ensures i == a && j == b,
{
    assert(i == a) by (nonlinear_arith)
        requires 0 <= j < cols, 0 <= b < cols, 0 <= i, 0 <= a, i * cols + j == a * cols + b;
}

// ---------------------------------------------------------------- assumed contracts of std functions (no vstd spec)
pub assume_specification<T> [<[T]>::swap] (s: &mut [T], a: usize, b: usize)
    requires a < old(s)@.len(), b < old(s)@.len(),
    ensures final(s)@ == old(s)@.update(a as int, old(s)@[b as int]).update(b as int, old(s)@[a as int]);

pub uninterp spec fn f64_abs_spec(x: f64) -> f64;
// f64 methods: uninterpreted spec functions (floating point has no semantics in Verus)
pub uninterp spec fn f64_sqrt_spec(x: f64) -> f64;
pub uninterp spec fn f64_powf_spec(x: f64, p: f64) -> f64;
pub uninterp spec fn f64_max_spec(x: f64, y: f64) -> f64;
pub uninterp spec fn f64_sin_spec(x: f64) -> f64;
pub uninterp spec fn f64_cos_spec(x: f64) -> f64;
pub uninterp spec fn f64_sinh_spec(x: f64) -> f64;
pub uninterp spec fn f64_cosh_spec(x: f64) -> f64;
pub uninterp spec fn f64_exp_spec(x: f64) -> f64;
pub uninterp spec fn f64_ln_spec(x: f64) -> f64;
pub uninterp spec fn f64_atan2_spec(y: f64, x: f64) -> f64;
pub assume_specification [f64::abs] (x: f64) -> (r: f64) ensures r == f64_abs_spec(x);
pub assume_specification [f64::sqrt] (x: f64) -> (r: f64) ensures r == f64_sqrt_spec(x);
pub assume_specification [f64::powf] (x: f64, p: f64) -> (r: f64) ensures r == f64_powf_spec(x, p);
pub assume_specification [f64::max] (x: f64, y: f64) -> (r: f64) ensures r == f64_max_spec(x, y);
pub assume_specification [f64::sin] (x: f64) -> (r: f64) ensures r == f64_sin_spec(x);
pub assume_specification [f64::cos] (x: f64) -> (r: f64) ensures r == f64_cos_spec(x);
pub assume_specification [f64::sinh] (x: f64) -> (r: f64) ensures r == f64_sinh_spec(x);
pub assume_specification [f64::cosh] (x: f64) -> (r: f64) ensures r == f64_cosh_spec(x);
pub assume_specification [f64::exp] (x: f64) -> (r: f64) ensures r == f64_exp_spec(x);
pub assume_specification [f64::ln] (x: f64) -> (r: f64) ensures r == f64_ln_spec(x);
pub assume_specification [f64::atan2] (y: f64, x: f64) -> (r: f64) ensures r == f64_atan2_spec(y, x);

/// shorthand for the f64 operator terms
pub open spec fn fadd(a: f64, b: f64) -> f64 { <f64 as AddSpec<f64>>::add_spec(a, b) }
pub open spec fn fsub(a: f64, b: f64) -> f64 { <f64 as SubSpec<f64>>::sub_spec(a, b) }
pub open spec fn fmul(a: f64, b: f64) -> f64 { <f64 as MulSpec<f64>>::mul_spec(a, b) }
pub open spec fn fdiv(a: f64, b: f64) -> f64 { <f64 as DivSpec<f64>>::div_spec(a, b) }
pub open spec fn flt(a: f64, b: f64) -> bool { a.partial_cmp_spec(&b) == Some(Ordering::Less) }
pub open spec fn fle(a: f64, b: f64) -> bool { a.partial_cmp_spec(&b) == Some(Ordering::Less) || a.partial_cmp_spec(&b) == Some(Ordering::Equal) }
/// f64 comparisons decide their spec (assumed: NaN-free reasoning is NOT assumed, only that `<` is a function of its operands)
pub open spec fn h_f64cmp() -> bool {
    &&& <f64 as PartialOrdSpec<f64>>::obeys_partial_cmp_spec()
    &&& <f64 as PartialEqSpec<f64>>::obeys_eq_spec()
}

pub assume_specification<T, A: core::alloc::Allocator, F: FnMut() -> T> [Vec::<T, A>::resize_with] (v: &mut Vec<T, A>, new_len: usize, f: F)
    ensures
        final(v)@.len() == new_len,
        forall|i: int| 0 <= i < new_len && i < old(v)@.len() ==> #[trigger] final(v)@[i] == old(v)@[i];

/// R7: `v.drain(a..b);` whose iterator is dropped immediately removes the range.
#[verifier::external_body]
pub fn vec_remove_range<T>(v: &mut Vec<T>, a: usize, b: usize)
    requires a <= b <= old(v)@.len(),
    ensures final(v)@ == old(v)@.subrange(0, a as int) + old(v)@.subrange(b as int, old(v)@.len() as int),
{
    v.drain(a..b);
}

// integer helpers without a vstd spec (needed by banded.rs; exact mathematical contracts)
pub assume_specification<T: Ord> [core::cmp::min::<T>] (a: T, b: T) -> (r: T)
    ensures r == (if b.cmp_spec(&a) == Ordering::Less { b } else { a });
pub assume_specification<T: Ord> [core::cmp::max::<T>] (a: T, b: T) -> (r: T)
    ensures r == (if b.cmp_spec(&a) == Ordering::Less { a } else { b });
pub assume_specification [isize::unsigned_abs] (a: isize) -> (r: usize)
    ensures r == (if a >= 0 { a as int } else { -(a as int) });

// ---------------------------------------------------------------- order hypotheses (pivot selection)
pub open spec fn lt<T: PartialOrd>(a: T, b: T) -> bool { a.partial_cmp_spec(&b) == Some(Ordering::Less) }
pub open spec fn gt<T: PartialOrd>(a: T, b: T) -> bool { a.partial_cmp_spec(&b) == Some(Ordering::Greater) }
/// H_order: `<` is a strict partial order compatible with `>` (true of NaN-free floats, rationals, integers)
pub open spec fn h_order<T: PartialOrd>() -> bool {
    &&& T::obeys_partial_cmp_spec()
    &&& forall|a: T, b: T, c: T| #[trigger] lt(a, b) && #[trigger] lt(b, c) ==> lt(a, c)
    &&& forall|a: T, b: T| #[trigger] gt(a, b) == lt(b, a)
    &&& forall|a: T| !#[trigger] lt(a, a)
}

/// |0| = 0 (so that a magnitude above zero certifies a non-zero value)
pub open spec fn h_abs<T: Signed>() -> bool { T::zero_spec().abs_spec() == T::zero_spec() }

/// R15: `v.sort_by_key(|p| E)` with the key expression duplicated as a ghost spec closure.
/// Assumed (std contract of a stable sort by key): permutation, sorted by key.
#[verifier::external_body]
pub fn ohsl_sort_by_key<T, K: Ord, F: FnMut(&T) -> K>(v: &mut Vec<T>, f: F, Ghost(key): Ghost<spec_fn(T) -> int>)
    ensures
        final(v)@.to_multiset() =~= old(v)@.to_multiset(),
        final(v)@.len() == old(v)@.len(),
        forall|i: int, j: int| 0 <= i <= j < final(v)@.len() ==> key(#[trigger] final(v)@[i]) <= key(#[trigger] final(v)@[j]),
{
    v.sort_by_key(f)
}
/// types the ghost key closure of R15 by the vector's element type
pub open spec fn ohsl_key_of<T>(v: &Vec<T>, f: spec_fn(T) -> int) -> spec_fn(T) -> int { f }

/// R18: `v.iter().position(|x| *x == value)`.  Assumed (std contract of `Iterator::position` on a slice iterator
/// with an equality predicate): the first index whose element equals `value`, or None when there is none.
#[verifier::external_body]
pub fn ohsl_position_eq<T: PartialEq>(v: &Vec<T>, value: &T) -> (r: Option<usize>)
    ensures
        match r {
            Some(i) => i < v@.len() && v@[i as int].eq_spec(value) && forall|k: int| 0 <= k < i ==> !(#[trigger] v@[k]).eq_spec(value),
            None => forall|k: int| 0 <= k < v@.len() ==> !(#[trigger] v@[k]).eq_spec(value),
        },
{
    v.iter().position(|x| *x == *value)
}

/// R19: `v.iter().map(f).collect()` into a Vec.  Assumed (std contract of slice `iter`, `Iterator::map` and `collect`): the
/// closure is applied to every element in order; the result has the length of `v` and its i-th element is a value the
/// closure may return for `v[i]`.  The closure itself is source text, verified against the contract the .vspec file gives it.
#[verifier::external_body]
pub fn ohsl_map_collect<T, U, F: Fn(&T) -> U>(v: &Vec<T>, f: F) -> (r: Vec<U>)
    requires forall|i: int| 0 <= i < v@.len() ==> call_requires(f, (&#[trigger] v@[i],)),
    ensures r@.len() == v@.len(), forall|i: int| 0 <= i < v@.len() ==> call_ensures(f, (&v@[i],), #[trigger] r@[i]),
{
    v.iter().map(f).collect()
}

/// R7: `for t in v.drain(..)` (v: &mut Vec) yields all elements in order and leaves v empty.
#[verifier::external_body]
pub fn vec_take<T>(v: &mut Vec<T>) -> (r: Vec<T>)
    ensures r@ == old(v)@, final(v)@.len() == 0,
{
    core::mem::take(v)
}

/// `f64::EPSILON` (an associated constant Verus does not support) is named
pub uninterp spec fn f64_epsilon_spec() -> f64;
#[verifier::external_body]
pub const fn f64_epsilon() -> (r: f64)
    ensures r == f64_epsilon_spec(),
{
    f64::EPSILON
}

/// R8: number of workers; only `>= 1` is assumed of num_cpus::get()
#[verifier::external_body]
pub fn num_cpus_get() -> (r: usize)
    ensures r >= 1,
{
    // the generated file is verified, never run; the real call is num_cpus::get()
    std::thread::available_parallelism().map(|n| n.get()).unwrap_or(1)
}

pub uninterp spec fn f64_is_finite_spec(x: f64) -> bool;
pub assume_specification [f64::is_finite] (x: f64) -> (r: bool) ensures r == f64_is_finite_spec(x);
pub assume_specification [f64::is_nan] (x: f64) -> (r: bool);
