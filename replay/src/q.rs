//! Exact rationals (i128) implementing the ohsl number traits: the "exact element type" of the properties.
use core::ops::{Add, Sub, Mul, Div, Neg, AddAssign, SubAssign, MulAssign, DivAssign};
use ohsl::{Zero, One, Number, Signed};

#[derive(Clone, Copy, Debug)]
pub struct Q { pub n: i128, pub d: i128 }

fn gcd(a: i128, b: i128) -> i128 { let (mut a, mut b) = (a.abs(), b.abs()); while b != 0 { let t = a % b; a = b; b = t; } if a == 0 { 1 } else { a } }
impl Q {
    pub fn new(n: i128, d: i128) -> Q { assert!(d != 0, "Q: zero denominator"); let g = gcd(n, d); let s = if d < 0 { -1 } else { 1 }; Q { n: s * n / g, d: s * d / g } }
    pub fn int(n: i64) -> Q { Q { n: n as i128, d: 1 } }
    pub fn is_zero(&self) -> bool { self.n == 0 }
    pub fn to_f64(&self) -> f64 { self.n as f64 / self.d as f64 }
}
impl PartialEq for Q { fn eq(&self, o: &Q) -> bool { self.n == o.n && self.d == o.d } }
impl PartialOrd for Q { fn partial_cmp(&self, o: &Q) -> Option<std::cmp::Ordering> { (self.n.checked_mul(o.d).unwrap()).partial_cmp(&(o.n.checked_mul(self.d).unwrap())) } }
impl Add for Q { type Output = Q; fn add(self, o: Q) -> Q { Q::new(self.n.checked_mul(o.d).unwrap().checked_add(o.n.checked_mul(self.d).unwrap()).unwrap(), self.d.checked_mul(o.d).unwrap()) } }
impl Sub for Q { type Output = Q; fn sub(self, o: Q) -> Q { Q::new(self.n.checked_mul(o.d).unwrap().checked_sub(o.n.checked_mul(self.d).unwrap()).unwrap(), self.d.checked_mul(o.d).unwrap()) } }
impl Mul for Q { type Output = Q; fn mul(self, o: Q) -> Q { Q::new(self.n.checked_mul(o.n).unwrap(), self.d.checked_mul(o.d).unwrap()) } }
impl Div for Q { type Output = Q; fn div(self, o: Q) -> Q { assert!(o.n != 0, "Q: division by zero"); Q::new(self.n.checked_mul(o.d).unwrap(), self.d.checked_mul(o.n).unwrap()) } }
impl Neg for Q { type Output = Q; fn neg(self) -> Q { Q { n: -self.n, d: self.d } } }
impl AddAssign for Q { fn add_assign(&mut self, o: Q) { *self = *self + o; } }
impl SubAssign for Q { fn sub_assign(&mut self, o: Q) { *self = *self - o; } }
impl MulAssign for Q { fn mul_assign(&mut self, o: Q) { *self = *self * o; } }
impl DivAssign for Q { fn div_assign(&mut self, o: Q) { *self = *self / o; } }
impl Zero for Q { fn zero() -> Q { Q::int(0) } }
impl One for Q { fn one() -> Q { Q::int(1) } }
impl Number for Q {}
impl Signed for Q { fn abs(&self) -> Q { Q { n: self.n.abs(), d: self.d } } }
impl Default for Q { fn default() -> Q { Q::int(0) } }

/// small deterministic generator (seeded from VERIF_SEED)
pub struct Rng(pub u64);
impl Rng {
    pub fn next(&mut self) -> u64 { self.0 ^= self.0 << 13; self.0 ^= self.0 >> 7; self.0 ^= self.0 << 17; self.0 }
    pub fn below(&mut self, n: u64) -> u64 { self.next() % n }
    pub fn int(&mut self, lo: i64, hi: i64) -> i64 { lo + (self.next() % ((hi - lo + 1) as u64)) as i64 }
    pub fn q(&mut self) -> Q { Q::int(self.int(-4, 4)) }
    pub fn q_nz(&mut self) -> Q { loop { let v = self.int(-4, 4); if v != 0 { return Q::int(v); } } }
    pub fn f(&mut self) -> f64 { self.int(-8, 8) as f64 * 0.5 }
    pub fn unit(&mut self) -> f64 { (self.next() >> 11) as f64 / (1u64 << 53) as f64 }
}
