//! Concrete replay search: bounded, executable oracles for the properties of /verif/properties.jsonl,
//! run against the REAL crate (ohsl = { path = /repo }).  Used by /verif/check
//!   (a) to attach a concrete failing input to a failed proof obligation, and
//!   (b) as a BOUNDED stand-in when a function of a property's unit can no longer be verified
//!       (restructured body: lost anchor / unsupported construct).  Bounded, never counted as proved.
//! usage: ohsl_replay <PROPERTY_ID> [seed]      prints one JSON object per counterexample, exit 1 if any.
mod q;
use q::{Q, Rng};
use ohsl::*;
use std::panic::{catch_unwind, AssertUnwindSafe};

struct Finding { oracle: &'static str, input: String, observed: String, expected: String }
type Out = Vec<Finding>;
static LAST_PANIC: std::sync::Mutex<String> = std::sync::Mutex::new(String::new());
static CASES: std::sync::atomic::AtomicU64 = std::sync::atomic::AtomicU64::new(0);
/// one generated input / one step of an operation sequence evaluated against the real crate
#[inline] fn case() { CASES.fetch_add(1, std::sync::atomic::Ordering::Relaxed); }
/// second pass of every oracle ("big"): sizes up to the upper end of the range the property quantifies over
static BIG: std::sync::atomic::AtomicBool = std::sync::atomic::AtomicBool::new(false);
fn up(small: usize, big: usize) -> usize { if BIG.load(std::sync::atomic::Ordering::Relaxed) { big } else { small } }
/// max that propagates NaN (f64::max drops it: a NaN result must not look like a zero error)
fn nmax(a: f64, b: f64) -> f64 { if a.is_nan() || b.is_nan() { f64::NAN } else { a.max(b) } }
fn report(out: &mut Out, oracle: &'static str, input: String, observed: String, expected: String) {
    if out.iter().filter(|f| f.oracle == oracle).count() < 40 { out.push(Finding { oracle, input, observed, expected }); }
}
fn quiet<R>(f: impl FnOnce() -> R) -> Result<R, String> {
    catch_unwind(AssertUnwindSafe(f)).map_err(|e| e.downcast_ref::<&str>().map(|s| s.to_string()).or_else(|| e.downcast_ref::<String>().cloned()).unwrap_or_else(|| "panic".into()))
}
fn qs(v: &[Q]) -> String { format!("[{}]", v.iter().map(|x| if x.d == 1 { format!("{}", x.n) } else { format!("{}/{}", x.n, x.d) }).collect::<Vec<_>>().join(", ")) }
fn mq(m: &Vec<Vec<Q>>) -> String { format!("[{}]", m.iter().map(|r| qs(r)).collect::<Vec<_>>().join(", ")) }

// ---------------------------------------------------------------- dense reference model
type M = Vec<Vec<Q>>;
fn to_matrix(m: &M) -> Matrix<Q> {
    let r = m.len(); let c = if r > 0 { m[0].len() } else { 0 };
    let mut a = Matrix::<Q>::new(r, c, Q::int(0));
    for i in 0..r { for j in 0..c { a[(i, j)] = m[i][j]; } }
    a
}
fn from_matrix(a: &Matrix<Q>) -> M { (0..a.rows()).map(|i| (0..a.cols()).map(|j| a[(i, j)]).collect()).collect() }
fn rand_m(rng: &mut Rng, r: usize, c: usize) -> M { (0..r).map(|_| (0..c).map(|_| rng.q()).collect()).collect() }
fn matvec(m: &M, x: &[Q]) -> Vec<Q> { m.iter().map(|row| row.iter().zip(x).fold(Q::int(0), |s, (a, b)| s + *a * *b)).collect() }
fn matmul(a: &M, b: &M) -> M { let c = if b.is_empty() { 0 } else { b[0].len() }; matmul_c(a, b, c) }
fn matmul_c(a: &M, b: &M, c: usize) -> M {
    let (r, k) = (a.len(), b.len());
    (0..r).map(|i| (0..c).map(|j| (0..k).fold(Q::int(0), |s, t| s + a[i][t] * b[t][j])).collect()).collect()
}
fn det_ref(m: &M) -> Q {
    // exact Gaussian elimination over Q with row exchanges (cubic cost, any order)
    let n = m.len();
    let mut a: M = m.clone(); let mut det = Q::int(1);
    for k in 0..n {
        let p = match (k..n).find(|&i| !a[i][k].is_zero()) { Some(p) => p, None => return Q::int(0) };
        if p != k { a.swap(p, k); det = -det; }
        det = det * a[k][k];
        for i in k + 1..n { if !a[i][k].is_zero() { let f = a[i][k] / a[k][k]; for j in k..n { let t = a[k][j]; a[i][j] = a[i][j] - f * t; } } }
    }
    det
}
fn vq(v: &Vector<Q>) -> Vec<Q> { (0..v.size()).map(|i| v[i]).collect() }

// ---------------------------------------------------------------- C01 / C02
/// by-products of the factorisation: P*A == L*U exactly with the returned permutation and the stored factors; the count of
/// exchanges has the parity of the permutation (reported under C01 or C02)
fn lu_byproducts(out: &mut Out, a: &M, c01: bool) {
    let n = a.len(); let am = to_matrix(a); let dr = det_ref(a);
    let names: [&'static str; 4] = if c01 { ["C01 the matrix returned by lu_decomp_in_place is a permutation matrix", "C01 lu_decomp_in_place: P*A == L*U with the returned permutation and the stored factors", "C01 the exchange count returned by lu_decomp_in_place has the parity of the permutation", "C01 lu_decomp_in_place panicked on a square matrix"] }
        else { ["C02 the matrix returned by lu_decomp_in_place is a permutation matrix", "C02 lu_decomp_in_place: P*A == L*U with the returned permutation and the stored factors", "C02 the exchange count returned by lu_decomp_in_place has the parity of the permutation", "C02 lu_decomp_in_place panicked on a square matrix"] };
    let mut f = am.clone();
    match quiet(std::panic::AssertUnwindSafe(|| f.lu_decomp_in_place())) {
        Ok((piv, perm)) => { let (fm, pm) = (from_matrix(&f), from_matrix(&perm));
            let l: M = (0..n).map(|i| (0..n).map(|j| if j < i { fm[i][j] } else if i == j { Q::int(1) } else { Q::int(0) }).collect()).collect();
            let u: M = (0..n).map(|i| (0..n).map(|j| if j >= i { fm[i][j] } else { Q::int(0) }).collect()).collect();
            let is_perm = (0..n).all(|i| (0..n).filter(|&j| pm[i][j] == Q::int(1)).count() == 1 && (0..n).all(|j| pm[i][j] == Q::int(1) || pm[i][j].is_zero())) && (0..n).all(|j| (0..n).filter(|&i| pm[i][j] == Q::int(1)).count() == 1);
            if !is_perm { report(out, names[0], format!("A={}", mq(a)), mq(&pm), "a permutation matrix".into()); }
            else if !dr.is_zero() {
                if matmul(&pm, a) != matmul(&l, &u) { report(out, names[1], format!("A={}", mq(a)), format!("P={} LU={}", mq(&pm), mq(&fm)), "P*A == L*U".into()); }
                if (det_ref(&pm) == Q::int(1)) != (piv % 2 == 0) { report(out, names[2], format!("A={}", mq(a)), format!("{} exchanges, det P = {:?}", piv, det_ref(&pm)), "same parity".into()); } } }
        Err(e) => report(out, names[3], format!("A={}", mq(a)), e, "factors".into()) }
}
fn c01(rng: &mut Rng, out: &mut Out) {
    for it in 0..400 { case();
        let n = 1 + (it % up(5, 12));
        let mut a = rand_m(rng, n, n);
        // force pivoting situations: zero / negative leading entries
        if n > 1 && it % 3 == 0 { a[0][0] = Q::int(0); }
        if n > 2 && it % 4 == 0 { a[1][1] = Q::int(0); a[1][0] = Q::int(0); }
        if det_ref(&a).is_zero() { continue; }
        lu_byproducts(out, &a, true);
        let mut b: Vec<Q> = (0..n).map(|_| rng.q()).collect();
        if it % 6 == 1 && n > 1 { let j = 1 + rng.below(n as u64 - 1) as usize; for (i, v) in b.iter_mut().enumerate() { *v = Q::int((i == j) as i64); } }      // a unit vector (leading zeros)
        if it % 6 == 4 && n > 2 { b[0] = Q::int(0); b[1] = Q::int(0); }
        let bv = Vector::create(b.clone());
        for (name, which) in [("solve_basic", 0), ("solve_lu", 1)] { case();
            let mut am = to_matrix(&a);
            let r = quiet(|| if which == 0 { am.solve_basic(&bv) } else { am.solve_lu(&bv) });
            match r {
                Ok(x) => {
                    let xv = vq(&x);
                    if xv.len() != n || matvec(&a, &xv) != b {
                        report(out, if which == 0 { "C01 solve_basic: A*x == b over rationals" } else { "C01 solve_lu: A*x == b over rationals" },
                               format!("A={} b={}", mq(&a), qs(&b)), format!("{} returned x={}", name, qs(&xv)), "A*x == b exactly".into());
                    }
                }
                Err(e) => report(out, "C01 solver panicked on a nonsingular system", format!("A={} b={}", mq(&a), qs(&b)), format!("{} panicked: {}", name, e), "a solution".into()),
            }
        }
    }
    // the same over f64 and Complex<f64> (magnitude-based pivoting goes through abs / PartialOrd of these types):
    // integer data with a nonsingular exact twin, plus tiny or negative leading entries that only a row exchange survives
    for it in 0..440 { case();
        let n = if it < 240 { 1 + (it % up(5, 12)) } else { 3 + (it % up(4, 9)) };
        let mut a = rand_m(rng, n, n);
        // it >= 240: at elimination step k the pivot column holds (zero or tiny diagonal, entries of order one, tiny entries that
        // are still larger than the diagonal) - only the choice of the LARGEST magnitude keeps the multipliers bounded
        let mut tiny: Vec<(usize, usize, f64)> = vec![];
        if it >= 240 {
            let k = rng.below(n as u64 - 2) as usize;
            for i in 0..n { for j in 0..k { a[i][j] = Q::int((i == j) as i64); } }
            a[k][k] = Q::int(0); tiny.push((k, k, if it % 2 == 0 { 0.0 } else { 1.0e-18 }));
            let big = k + 1 + rng.below((n - k - 1) as u64 - if it % 3 == 0 { 1 } else { 0 }) as usize;     // it % 3 == 0: never the last row
            for i in k + 1..n { if i == big { if a[i][k].is_zero() { a[i][k] = Q::int(2); } }
                else if rng.below(2) == 0 || (it % 3 == 0 && i == n - 1) { a[i][k] = Q::int(0); tiny.push((i, k, if rng.below(2) == 0 { 1.0e-17 } else { -1.0e-17 })); } }
        }
        if det_ref(&a).is_zero() { continue; }
        let mut af: Vec<Vec<f64>> = a.iter().map(|r| r.iter().map(|x| x.to_f64()).collect()).collect();
        for &(i, j, v) in &tiny { af[i][j] = v; }
        if n > 1 && it % 3 == 0 && a[1][0].to_f64() != 0.0 {       // tiny leading pivot; the system must stay well posed when that entry is read as zero
            let mut a0 = a.clone(); a0[0][0] = Q::int(0); if det_ref(&a0).is_zero() { continue; }
            af[0][0] = 1.0e-17; }
        if n > 1 && it % 4 == 1 { for j in 0..n { af[n - 1][j] *= -1.0e3; } }            // large negative row
        let xs: Vec<f64> = (0..n).map(|_| rng.int(-4, 4) as f64).collect();
        let bf: Vec<f64> = (0..n).map(|i| (0..n).map(|j| af[i][j] * xs[j]).sum()).collect();
        let scale = af.iter().flatten().fold(0.0f64, |s, v| s.max(v.abs())) * (1.0 + xs.iter().fold(0.0f64, |s, v| s.max(v.abs()))) * n as f64;
        for which in 0..2 { case();
            let mut m = Mat64::new(n, n, 0.0);
            for i in 0..n { for j in 0..n { m[(i, j)] = af[i][j]; } }
            let bv = Vec64::create(bf.clone());
            match quiet(|| if which == 0 { m.solve_basic(&bv) } else { m.solve_lu(&bv) }) {
                Ok(x) => {
                    let res = (0..n).map(|i| ((0..n).map(|j| af[i][j] * x[j]).sum::<f64>() - bf[i]).abs()).fold(0.0f64, nmax);
                    if !(res <= 1e-9 * (1.0 + scale)) {
                        report(out, if which == 0 { "C01 solve_basic over f64: small backward error" } else { "C01 solve_lu over f64: small backward error" },
                               format!("A={:?} b={:?}", af, bf), format!("x={:?} residual {:e}", (0..n).map(|i| x[i]).collect::<Vec<_>>(), res), "residual of the order of rounding".into());
                    }
                }
                Err(e) => report(out, "C01 solver panicked on a nonsingular f64 system", format!("A={:?} b={:?}", af, bf), e, "a solution".into()),
            }
            // complex twin: A (1 + i/2), b (1 + i/2) has the same solution
            let w = Cmplx::new(1.0, 0.5);
            let mut mc = Matrix::<Cmplx>::new(n, n, Cmplx::new(0.0, 0.0));
            for i in 0..n { for j in 0..n { mc[(i, j)] = w * af[i][j]; } }
            let bc = Vector::<Cmplx>::create(bf.iter().map(|v| w * *v).collect());
            match quiet(|| if which == 0 { mc.solve_basic(&bc) } else { mc.solve_lu(&bc) }) {
                Ok(x) => {
                    let res = (0..n).map(|i| { let mut s = Cmplx::new(0.0, 0.0); for j in 0..n { s = s + (w * af[i][j]) * x[j]; } (s - w * bf[i]).abs() }).fold(0.0f64, nmax);
                    if !(res <= 1e-9 * (1.0 + 2.0 * scale)) {
                        report(out, if which == 0 { "C01 solve_basic over Complex<f64>: small backward error" } else { "C01 solve_lu over Complex<f64>: small backward error" },
                               format!("A=(1+0.5i)*{:?} b=(1+0.5i)*{:?}", af, bf), format!("residual {:e}", res), "residual of the order of rounding".into());
                    }
                }
                Err(e) => report(out, "C01 solver panicked on a nonsingular complex system", format!("A=(1+0.5i)*{:?}", af), e, "a solution".into()),
            }
        }
    }
}
/// C01 over f64 at extreme (but normal) magnitudes: entries are small integers times 2^+-565 (~1e+-170) or 2^+-330; the multipliers of
/// an elimination with partial pivoting are of order one, so no intermediate of a correct solver leaves the normal range
fn c01_extreme(rng: &mut Rng, out: &mut Out) {
    for n in [1usize, 2, 3, 5, 7] { for e in [-565i32, 565, -330, 330, -1000, 1000] { for rep in 0..3 { case();
        let sc = { let mut x = 1.0f64; let mut k = e; while k > 500 { x *= 2.0f64.powi(500); k -= 500; } while k < -500 { x *= 2.0f64.powi(-500); k += 500; } x * 2.0f64.powi(k) };
        // a row permutation of a strictly diagonally dominant integer matrix: nonsingular, well conditioned, needs row exchanges
        let mut perm: Vec<usize> = (0..n).collect(); for k in (1..n).rev() { let t = rng.below(k as u64 + 1) as usize; perm.swap(k, t); }
        let mut a = vec![vec![0.0f64; n]; n];
        for i in 0..n { for j in 0..n { a[perm[i]][j] = if i == j { (3 * n as i64 + 1 + rng.int(0, 3)) as f64 * if rng.below(2) == 0 { 1.0 } else { -1.0 } } else { rng.int(-2, 2) as f64 }; } }
        let xs: Vec<f64> = (0..n).map(|_| rng.int(-4, 4) as f64).collect();
        let bi: Vec<f64> = (0..n).map(|i| (0..n).map(|j| a[i][j] * xs[j]).sum()).collect();
        let ctx = format!("A=2^{} * {:?} b=2^{} * {:?} (rep {})", e, a, e, bi, rep);
        for which in 0..2 { case();
            let mut m = Mat64::new(n, n, 0.0); for i in 0..n { for j in 0..n { m[(i, j)] = a[i][j] * sc; } }
            let bv = Vec64::create(bi.iter().map(|v| v * sc).collect());
            match quiet(|| if which == 0 { m.solve_basic(&bv) } else { m.solve_lu(&bv) }) {
                Ok(x) => { let err = (0..n).map(|i| (x[i] - xs[i]).abs()).fold(0.0f64, nmax);
                    if !(err <= 1e-9) { report(out, if which == 0 { "C01 solve_basic over f64 at extreme magnitudes: accurate whatever the scale of the entries" } else { "C01 solve_lu over f64 at extreme magnitudes: accurate whatever the scale of the entries" }, ctx.clone(), format!("x={:?}", (0..n).map(|i| x[i]).collect::<Vec<_>>()), format!("{:?}", xs)); } }
                Err(er) => report(out, "C01 solver panicked on a nonsingular f64 system", ctx.clone(), er, "a solution".into()),
            }
        }
    } } }
}
fn c02(rng: &mut Rng, out: &mut Out) {
    for it in 0..300 { case();
        let n = 1 + (it % up(4, 8));
        let mut a = rand_m(rng, n, n);
        if it % 5 == 0 && n > 1 { for j in 0..n { a[n - 1][j] = a[0][j]; } }           // singular
        if it % 7 == 0 && n > 1 { for i in 0..n { a[i][0] = Q::int(0); } }             // zero column
        let am = to_matrix(&a);
        let d = quiet(|| am.determinant());
        let dr = det_ref(&a);
        match d { Ok(d) => if d != dr { report(out, "C02 determinant == exact determinant", format!("A={}", mq(&a)), format!("{:?}", d), format!("{:?}", dr)); },
                  Err(e) => report(out, "C02 determinant panicked", format!("A={}", mq(&a)), e, format!("{:?}", dr)) }
        if from_matrix(&am) != a { report(out, "C02 determinant leaves the matrix unchanged", format!("A={}", mq(&a)), mq(&from_matrix(&am)), mq(&a)); }
        lu_byproducts(out, &a, false);
        { let id: M = (0..n).map(|i| (0..n).map(|j| Q::int((i == j) as i64)).collect()).collect();
          if !(Matrix::<Q>::eye(n) == to_matrix(&id)) { report(out, "C02 eye(n) compares equal to the identity built entry by entry", format!("n={}", n), "eye(n) != built".into(), "equal".into()); } }
        if !dr.is_zero() {
            match quiet(|| am.inverse()) {
                Ok(inv) => {
                    if !(inv == to_matrix(&from_matrix(&inv))) { report(out, "C02 the inverse compares equal (==) to the same matrix built entry by entry", format!("A={}", mq(&a)), "inv != rebuilt".into(), "equal".into()); }
                    let p = matmul(&a, &from_matrix(&inv)); let p2 = matmul(&from_matrix(&inv), &a);
                    let id: M = (0..n).map(|i| (0..n).map(|j| Q::int((i == j) as i64)).collect()).collect();
                    if p != id || p2 != id { report(out, "C02 A*inv(A) == inv(A)*A == I", format!("A={}", mq(&a)), format!("A*inv={}", mq(&p)), "identity".into()); }
                    // the same identity formed with the library's own products, borrowing and consuming
                    for (form, r) in [("&A * &inv", quiet(|| from_matrix(&(&am * &inv)))), ("A * inv", quiet(|| from_matrix(&(am.clone() * inv.clone())))), ("inv * A", quiet(|| from_matrix(&(inv.clone() * am.clone()))))] {
                        match r { Ok(m) => if m != id { report(out, "C02 A*inv(A) == inv(A)*A == I with the library's matrix products (borrowing and consuming)", format!("{} A={}", form, mq(&a)), mq(&m), "identity".into()); },
                                  Err(e) => report(out, "C02 product of a matrix and its inverse panicked", format!("{} A={}", form, mq(&a)), e, "identity".into()) } }
                }
                Err(e) => report(out, "C02 inverse panicked on a nonsingular matrix", format!("A={}", mq(&a)), e, "inverse".into()),
            }
        }
        // a column of subnormal entries (pivots below 1/f64::MAX): the determinant stays finite and accurate (the inverse legitimately overflows)
        if !dr.is_zero() && n >= 2 && it % 3 == 0 {
            let tiny = f64::from_bits(1u64 << 44);      // 2^-1030
            let mut ms = Mat64::new(n, n, 0.0); for i in 0..n { for j in 0..n { ms[(i, j)] = a[i][j].to_f64() * if j == 0 { tiny } else { 1.0 }; } }
            let want = dr.to_f64() * tiny;
            match quiet(|| ms.determinant()) {
                Ok(d) => if !(d.is_finite() && (d - want).abs() <= 1e-6 * want.abs()) { report(out, "C02 f64 determinant with a subnormal column is finite and accurate", format!("A={} with column 0 scaled by 2^-1030", mq(&a)), format!("{:e}", d), format!("{:e}", want)); },
                Err(e) => report(out, "C02 f64 determinant panicked", format!("A={} with column 0 scaled by 2^-1030", mq(&a)), e, format!("{:e}", want)) }
        }
        // the same matrix over f64 and Complex<f64> (pivoting by |.| of these types); integer data, tolerance of rounding size
        let af: Vec<Vec<f64>> = a.iter().map(|r| r.iter().map(|x| x.to_f64()).collect()).collect();
        let scale = (1.0 + af.iter().flatten().fold(0.0f64, |s, v| s.max(v.abs()))).powi(n as i32) * 24.0;
        let mut mf = Mat64::new(n, n, 0.0); for i in 0..n { for j in 0..n { mf[(i, j)] = af[i][j]; } }
        match quiet(|| mf.determinant()) {
            Ok(d) => if !((d - dr.to_f64()).abs() <= 1e-9 * scale) { report(out, "C02 f64 determinant agrees with the exact determinant", format!("A={:?}", af), format!("{}", d), format!("{}", dr.to_f64())); },
            Err(e) => report(out, "C02 f64 determinant panicked", format!("A={:?}", af), e, format!("{}", dr.to_f64())) }
        let w = Cmplx::new(0.0, 2.0);      // det(w A) = w^n det(A)
        let mut mc = Matrix::<Cmplx>::new(n, n, Cmplx::new(0.0, 0.0)); for i in 0..n { for j in 0..n { mc[(i, j)] = w * af[i][j]; } }
        let mut wn = Cmplx::new(1.0, 0.0); for _ in 0..n { wn = wn * w; }
        match quiet(|| mc.determinant()) {
            Ok(d) => if !((d - wn * dr.to_f64()).abs() <= 1e-9 * scale * 16.0) { report(out, "C02 complex determinant agrees with the exact determinant", format!("A=2i*{:?}", af), format!("({}, {})", d.real, d.imag), format!("(2i)^{} * {}", n, dr.to_f64())); },
            Err(e) => report(out, "C02 complex determinant panicked", format!("A=2i*{:?}", af), e, "a value".into()) }
        if !dr.is_zero() {
            match quiet(|| mf.inverse()) {
                Ok(inv) => { let mut worst = 0.0f64;
                    for i in 0..n { for j in 0..n { let mut s1 = 0.0; let mut s2 = 0.0; for k in 0..n { s1 += af[i][k] * inv[(k, j)]; s2 += inv[(i, k)] * af[k][j]; }
                        let id = (i == j) as i64 as f64; worst = worst.max((s1 - id).abs()).max((s2 - id).abs()); } }
                    let tol = 1e-9 * scale / dr.to_f64().abs().min(1.0);
                    if !(worst <= tol) { report(out, "C02 f64 inverse: A*inv(A) and inv(A)*A are the identity to rounding", format!("A={:?}", af), format!("max deviation {:e}", worst), format!("<= {:e}", tol)); } }
                Err(e) => report(out, "C02 f64 inverse panicked on a nonsingular matrix", format!("A={:?}", af), e, "inverse".into()),
            }
        }
    }
}

// ---------------------------------------------------------------- C03
fn c03_int(rng: &mut Rng, out: &mut Out) {
    for _ in 0..60 { case();
        let (r, c) = (1 + rng.below(up(3, 8) as u64) as usize, 1 + rng.below(up(3, 8) as u64) as usize);
        let vals: Vec<Vec<i64>> = (0..r).map(|_| (0..c).map(|_| rng.int(-40, 40)).collect()).collect();
        let mut m = Matrix::<i64>::new(r, c, 0); for i in 0..r { for j in 0..c { m[(i, j)] = vals[i][j]; } }
        let k = { let mut k = rng.int(-5, 5); if k == 0 { k = 3; } k };
        let ctx = format!("M={:?} scalar={}", vals, k);
        let q1 = &m / k; let q2 = m.clone() / k; let mut q3 = m.clone(); q3 /= k;
        let p1 = &m * k; let mut p3 = m.clone(); p3 *= k;
        for i in 0..r { for j in 0..c {
            if q1[(i, j)] != vals[i][j] / k || q2[(i, j)] != vals[i][j] / k || q3[(i, j)] != vals[i][j] / k { report(out, "C03 integer matrix / scalar is element-wise division in every form", ctx.clone(), format!("({},{}) -> {} {} {}", i, j, q1[(i, j)], q2[(i, j)], q3[(i, j)]), format!("{}", vals[i][j] / k)); }
            if p1[(i, j)] != vals[i][j] * k || p3[(i, j)] != vals[i][j] * k { report(out, "C03 integer matrix * scalar is element-wise", ctx.clone(), format!("({},{})", i, j), format!("{}", vals[i][j] * k)); }
        } }
        let v = Vector::<i64>::create(vals[0].clone()); let vq1 = v.clone() / k; let mut vq2 = v.clone(); vq2 /= k;
        for j in 0..c { if vq1[j] != vals[0][j] / k || vq2[j] != vals[0][j] / k { report(out, "C03 integer vector / scalar is element-wise division in every form", ctx.clone(), format!("{} {}", vq1[j], vq2[j]), format!("{}", vals[0][j] / k)); } }
    }
}
fn c03(rng: &mut Rng, out: &mut Out) {
    c03_int(rng, out);
    // products for all shapes up to 4
    for r in 0..up(4, 9) { for k in 0..up(4, 9) { for c in 0..up(4, 9) { case();
        let (a, b) = (rand_m(rng, r, k), rand_m(rng, k, c));
        let (am, bm) = (Matrix::<Q>::new(r, k, Q::int(0)), Matrix::<Q>::new(k, c, Q::int(0)));
        let (mut am, mut bm) = (am, bm);
        for i in 0..r { for j in 0..k { am[(i, j)] = a[i][j]; } }
        for i in 0..k { for j in 0..c { bm[(i, j)] = b[i][j]; } }
        match quiet(|| &am * &bm) {
            Ok(p) => { let e = matmul_c(&a, &b, c); if p.rows() != r || p.cols() != c || (r > 0 && c > 0 && from_matrix(&p) != e) {
                report(out, "C03 matrix product equals its definition for every shape", format!("A={} B={}", mq(&a), mq(&b)), mq(&from_matrix(&p)), mq(&e)); } }
            Err(e) => report(out, "C03 conformable matrix product panicked", format!("{}x{} * {}x{}", r, k, k, c), e, "a product".into()),
        }
    } } }
    // editing sequences against the model; the same edits are applied to an f64 twin (integer-valued data are exact in f64)
    // so that norms and equality are taken on the EDITED matrices, not on freshly built ones
    for _it in 0..300 { case();
        let (r, c) = (1 + rng.below(up(4, 8) as u64) as usize, 1 + rng.below(up(4, 8) as u64) as usize);
        let mut model: M = (0..r).map(|_| (0..c).map(|_| Q::int(rng.int(-9, 9))).collect()).collect();
        let mut m = to_matrix(&model);
        let mut mf = { let mut t = Mat64::new(r, c, 0.0); for i in 0..r { for j in 0..c { t[(i, j)] = model[i][j].to_f64(); } } t };
        let mut hist = vec![format!("start {}", mq(&model))];
        for _ in 0..4 { case();
            let (rr, cc) = (model.len(), if model.is_empty() { 0 } else { model[0].len() });
            if rr == 0 || cc == 0 { break; }
            match rng.below(9) {
                0 => { m.transpose_in_place(); mf.transpose_in_place(); model = (0..cc).map(|j| (0..rr).map(|i| model[i][j]).collect()).collect(); hist.push("transpose".into()); }
                1 => { let k = rng.below(rr as u64) as usize; m.delete_row(k); mf.delete_row(k); model.remove(k); hist.push(format!("delete_row({})", k)); }
                2 => { let off = rng.int(-3, 3); let v = Q::int(rng.int(-9, 9)); m.fill_band(off as isize, v); mf.fill_band(off as isize, v.to_f64());
                       for i in 0..rr { let j = i as i64 + off; if j >= 0 && (j as usize) < cc { model[i][j as usize] = v; } } hist.push(format!("fill_band({}, {:?})", off, v)); }
                3 => { let k = rng.below(cc as u64) as usize; let v: Vec<Q> = (0..rr).map(|_| Q::int(rng.int(-9, 9))).collect(); m.set_col(k, Vector::create(v.clone()));
                       mf.set_col(k, Vector::create(v.iter().map(|q| q.to_f64()).collect()));
                       for i in 0..rr { model[i][k] = v[i]; } hist.push(format!("set_col({}, {})", k, qs(&v))); }
                4 => { let k = rng.below(rr as u64) as usize; let v: Vec<Q> = (0..cc).map(|_| Q::int(rng.int(-9, 9))).collect(); m.set_row(k, Vector::create(v.clone()));
                       mf.set_row(k, Vector::create(v.iter().map(|q| q.to_f64()).collect()));
                       model[k] = v.clone(); hist.push(format!("set_row({}, {})", k, qs(&v))); }
                5 => { let (a, b) = (rng.below(rr as u64) as usize, rng.below(rr as u64) as usize); m.swap_rows(a, b); mf.swap_rows(a, b); model.swap(a, b); hist.push(format!("swap_rows({}, {})", a, b)); }
                6 => { let (nr, nc) = (1 + rng.below(up(4, 8) as u64) as usize, 1 + rng.below(up(4, 8) as u64) as usize); m.resize(nr, nc); mf.resize(nr, nc);
                       model = (0..nr).map(|i| (0..nc).map(|j| if i < rr && j < cc { model[i][j] } else { Q::int(0) }).collect()).collect(); hist.push(format!("resize({}, {})", nr, nc)); }
                7 => { let (l, d, u) = (Q::int(rng.int(-9, 9)), Q::int(rng.int(-9, 9)), Q::int(rng.int(-9, 9))); m.fill_tridiag(l, d, u); mf.fill_tridiag(l.to_f64(), d.to_f64(), u.to_f64());
                       for i in 0..rr { for j in 0..cc { if j + 1 == i { model[i][j] = l } else if i == j { model[i][j] = d } else if j == i + 1 { model[i][j] = u } } } hist.push("fill_tridiag".into()); }
                _ => { let v = Q::int(rng.int(-9, 9)); m.fill_diag(v); mf.fill_diag(v.to_f64()); for i in 0..rr.min(cc) { model[i][i] = v; } hist.push(format!("fill_diag({:?})", v)); }
            }
            let ok = m.rows() == model.len() && (model.is_empty() || m.cols() == model[0].len()) && from_matrix(&m) == model;
            if !ok { report(out, "C03 matrix equals the reference model after a sequence of edits", hist.join("; "), mq(&from_matrix(&m)), mq(&model)); break; }
            if !model.is_empty() && !(m == to_matrix(&model)) {
                report(out, "C03 an edited matrix compares equal to the same matrix built directly", hist.join("; "), "m != to_matrix(model)".into(), "equal".into()); break; }
            let okf = mf.rows() == model.len() && (model.is_empty() || mf.cols() == model[0].len())
                && (0..mf.rows()).all(|i| (0..mf.cols()).all(|j| mf[(i, j)] == model[i][j].to_f64()));
            if !okf { report(out, "C03 f64 matrix equals the reference model after a sequence of edits", hist.join("; "), format!("{}x{}", mf.rows(), mf.cols()), mq(&model)); break; }
            // norms of the edited matrix (integer data: exact in f64)
            let mx = model.iter().flatten().fold(0.0f64, |s, x| s.max(x.to_f64().abs()));
            if (mf.norm_max() - mx).abs() > 1e-12 { report(out, "C03 norm_max of an edited matrix", hist.join("; "), format!("{}", mf.norm_max()), format!("{}", mx)); break; }
            let fr = model.iter().flatten().fold(0.0f64, |s, x| s + x.to_f64() * x.to_f64()).sqrt();
            if (mf.norm_frob() - fr).abs() > 1e-9 * (1.0 + fr) { report(out, "C03 norm_frob of an edited matrix", hist.join("; "), format!("{}", mf.norm_frob()), format!("{}", fr)); break; }
            let n1 = (0..(if model.is_empty() { 0 } else { model[0].len() })).map(|j| model.iter().fold(0.0f64, |s, row| s + row[j].to_f64().abs())).fold(0.0f64, nmax);
            if !model.is_empty() && (mf.norm_1() - n1).abs() > 1e-9 * (1.0 + n1) { report(out, "C03 norm_1 of an edited matrix", hist.join("; "), format!("{}", mf.norm_1()), format!("{}", n1)); break; }
            let ni = model.iter().map(|row| row.iter().fold(0.0f64, |s, x| s + x.to_f64().abs())).fold(0.0f64, nmax);
            if !model.is_empty() && (mf.norm_inf() - ni).abs() > 1e-9 * (1.0 + ni) { report(out, "C03 norm_inf of an edited matrix", hist.join("; "), format!("{}", mf.norm_inf()), format!("{}", ni)); break; }
            let mut bad_p = false;
            for pn in [1.0f64, 1.5, 2.0, 3.0, 4.0] {      // entrywise p-norm for every order, p = 1 included (NOT the induced 1-norm)
                let e = model.iter().flatten().fold(0.0f64, |s, x| s + x.to_f64().abs().powf(pn)).powf(1.0 / pn);
                if !model.is_empty() && (mf.norm_p(pn) - e).abs() > 1e-9 * (1.0 + e) { report(out, "C03 norm_p is the entrywise (sum |a_ij|^p)^(1/p) for every p", format!("{} ; p={}", hist.join("; "), pn), format!("{}", mf.norm_p(pn)), format!("{}", e)); bad_p = true; break; } }
            if bad_p { break; }
        }
    }
}

fn c03_empty(out: &mut Out) {
    // deleting every row leaves a 0 x c matrix (the column count is kept), which is a valid operand of the next call
    for r in 1..4usize { for c in 1..5usize { case();
        let mut m = Matrix::<Q>::new(r, c, Q::int(2));
        for k in 0..r { m.delete_row(0); if m.rows() != r - k - 1 || m.cols() != c { report(out, "C03 delete_row removes one row and keeps the column count (down to 0 x c)", format!("{}x{} after {} deletions", r, c, k + 1), format!("{}x{}", m.rows(), m.cols()), format!("{}x{}", r - k - 1, c)); break; } }
        if m.rows() == 0 && m.cols() == c {
            match quiet(|| { let t = m.transpose(); (t.rows(), t.cols()) }) { Ok(sh) => if sh != (c, 0) { report(out, "C03 the transpose of a 0 x c matrix is c x 0", format!("0x{}", c), format!("{:?}", sh), format!("({}, 0)", c)); }, Err(e) => report(out, "C03 transpose of an empty matrix panicked", format!("0x{}", c), e, "c x 0".into()) }
            match quiet(|| m.multiply(&Vector::<Q>::new(c, Q::int(1))).size()) { Ok(sz) => if sz != 0 { report(out, "C03 (0 x c) * vector(c) is the empty vector", format!("0x{}", c), format!("size {}", sz), "size 0".into()); }, Err(e) => report(out, "C03 (0 x c) * vector(c) panicked", format!("0x{}", c), e, "empty vector".into()) }
        }
    } }
}

// ---------------------------------------------------------------- C04 banded, C05 tridiagonal
fn c04(rng: &mut Rng, out: &mut Out) {
    for n in 1..up(7, 11) { for m1 in 0..n { for m2 in 0..n { for rep in 0..6 { case();
        let mut b = Banded::<Q>::new(n, m1, m2, Q::int(7));          // 7 = padding value that must never matter
        let mut d: M = vec![vec![Q::int(0); n]; n];
        for i in 0..n { for j in 0..n { if j <= i + m2 && i <= j + m1 { case();
            let mut v = rng.q();
            if rep % 2 == 0 && i == j { v = Q::int(-(1 + rng.below(3) as i64)); }        // negative diagonals
            if rep % 3 == 0 && i == j && i + 1 < n && m1 > 0 { v = Q::int(0); }           // zero diagonal, sub-diagonal must pivot
            b[(i, j)] = v; d[i][j] = v;
        } } }
        let desc = format!("n={} m1={} m2={} dense={}", n, m1, m2, mq(&d));
        let x: Vec<Q> = (0..n).map(|_| rng.q()).collect();
        match quiet(|| &b * &Vector::create(x.clone())) {
            Ok(p) => if vq(&p) != matvec(&d, &x) { report(out, "C04 banded product == dense product", format!("{} x={}", desc, qs(&x)), qs(&vq(&p)), qs(&matvec(&d, &x))); },
            Err(e) => report(out, "C04 banded product panicked", format!("{} x={}", desc, qs(&x)), e, qs(&matvec(&d, &x))),
        }
        if rep == 2 && n >= 2 { case();   // resize down by one row and up again with the same bandwidths: the last row comes back empty, the others are kept
            let mut rb = b.clone();
            match quiet(std::panic::AssertUnwindSafe(|| { rb.resize(n - 1, m1.min(n - 2), m2.min(n - 2)); rb.resize(n, m1, m2); })) {
                Ok(()) => if m1 <= n - 2 && m2 <= n - 2 {
                    let er: M = (0..n).map(|i| (0..n).map(|j| if i + 1 < n { d[i][j] } else { Q::int(0) }).collect()).collect();
                    if rb.size() != n || rb.size_below() != m1 || rb.size_above() != m2 || (0..n).any(|i| (0..n).any(|j| j <= i + m2 && i <= j + m1 && rb[(i, j)] != er[i][j])) { report(out, "C04 resize down and up again keeps the leading rows and appends an empty row (as the dense matrix does)", desc.clone(), format!("last row {:?}", (0..n).filter(|&j| j + m1 >= n - 1).map(|j| rb[(n - 1, j)]).collect::<Vec<_>>()), "zeros".into()); }
                    else if let Ok(p) = quiet(|| &rb * &Vector::create(x.clone())) { if vq(&p) != matvec(&er, &x) { report(out, "C04 a resized banded matrix multiplies like its dense twin", format!("{} x={}", desc, qs(&x)), qs(&vq(&p)), qs(&matvec(&er, &x))); } } },
                Err(e) => report(out, "C04 Banded::resize panicked", desc.clone(), e, "a resized matrix".into()) }
        }
        if rep < 2 { // arithmetic: every form, compared entry by entry with the dense twin; the result keeps n, m1, m2 and works as the next operand
            let mut b2 = Banded::<Q>::new(n, m1, m2, Q::int(0)); let mut d2 = vec![vec![Q::int(0); n]; n];
            for i in 0..n { for j in 0..n { if j <= i + m2 && i <= j + m1 { let v = rng.q(); b2[(i, j)] = v; d2[i][j] = v; } } }
            let k = rng.q_nz();
            let forms: Vec<(&'static str, Box<dyn Fn() -> Banded<Q>>, Box<dyn Fn(usize, usize) -> Q>)> = vec![
                ("&a + &b", Box::new(|| &b + &b2), Box::new(|i, j| d[i][j] + d2[i][j])), ("a + b", Box::new(|| b.clone() + b2.clone()), Box::new(|i, j| d[i][j] + d2[i][j])),
                ("&a - &b", Box::new(|| &b - &b2), Box::new(|i, j| d[i][j] - d2[i][j])), ("a - b", Box::new(|| b.clone() - b2.clone()), Box::new(|i, j| d[i][j] - d2[i][j])),
                ("-&a", Box::new(|| -&b), Box::new(|i, j| -d[i][j])), ("-a", Box::new(|| -b.clone()), Box::new(|i, j| -d[i][j])),
                ("&a * k", Box::new(|| &b * k), Box::new(|i, j| d[i][j] * k)), ("a * k", Box::new(|| b.clone() * k), Box::new(|i, j| d[i][j] * k)),
                ("&a / k", Box::new(|| &b / k), Box::new(|i, j| d[i][j] / k)), ("a / k", Box::new(|| b.clone() / k), Box::new(|i, j| d[i][j] / k)),
                ("a += &b", Box::new(|| { let mut t = b.clone(); t += &b2; t }), Box::new(|i, j| d[i][j] + d2[i][j])), ("a += b", Box::new(|| { let mut t = b.clone(); t += b2.clone(); t }), Box::new(|i, j| d[i][j] + d2[i][j])),
                ("a -= &b", Box::new(|| { let mut t = b.clone(); t -= &b2; t }), Box::new(|i, j| d[i][j] - d2[i][j])), ("a -= b", Box::new(|| { let mut t = b.clone(); t -= b2.clone(); t }), Box::new(|i, j| d[i][j] - d2[i][j]))];
            for (name, f, e) in forms.iter() { case();
                match quiet(|| f()) {
                    Ok(r) => {
                        if r.size() != n || r.size_below() != m1 || r.size_above() != m2 { report(out, "C04 banded arithmetic keeps n and both bandwidths of its operands", format!("{} [{}]", desc, name), format!("n={} below={} above={}", r.size(), r.size_below(), r.size_above()), format!("n={} below={} above={}", n, m1, m2)); continue; }
                        let er: M = (0..n).map(|i| (0..n).map(|j| if j <= i + m2 && i <= j + m1 { e(i, j) } else { Q::int(0) }).collect()).collect();
                        if (0..n).any(|i| (0..n).any(|j| j <= i + m2 && i <= j + m1 && r[(i, j)] != er[i][j])) { report(out, "C04 banded arithmetic agrees with the dense matrix entry by entry", format!("{} b2={} k={:?} [{}]", desc, mq(&d2), k, name), "differs".into(), mq(&er)); continue; }
                        match quiet(|| &r * &Vector::create(x.clone())) { Ok(p) => if vq(&p) != matvec(&er, &x) { report(out, "C04 the result of banded arithmetic, used as the next operand, multiplies like its dense twin", format!("{} [{}] x={}", desc, name, qs(&x)), qs(&vq(&p)), qs(&matvec(&er, &x))); },
                            Err(pe) => report(out, "C04 the result of banded arithmetic is rejected by the next call", format!("{} [{}]", desc, name), pe, "a product".into()) } }
                    Err(pe) => report(out, "C04 banded arithmetic panicked on conforming operands", format!("{} [{}]", desc, name), pe, "a result".into()) }
            }
        }
        match quiet(|| b.clone() * Vector::create(x.clone())) {
            Ok(p) => if vq(&p) != matvec(&d, &x) { report(out, "C04 consuming banded product == dense product", format!("{} x={}", desc, qs(&x)), qs(&vq(&p)), qs(&matvec(&d, &x))); },
            Err(e) => report(out, "C04 consuming banded product panicked", format!("{} x={}", desc, qs(&x)), e, qs(&matvec(&d, &x))),
        }
        let dr = det_ref(&d);
        if n <= 5 { if let Ok(dd) = quiet(|| b.det()) { if !dr.is_zero() && dd != dr { report(out, "C04 banded det == dense det", desc.clone(), format!("{:?}", dd), format!("{:?}", dr)); } } }
        if !dr.is_zero() && n <= 5 {
            let rhs = matvec(&d, &x);
            match quiet(|| b.solve(&Vector::create(rhs.clone()))) {
                Ok(s) => if vq(&s) != x { report(out, "C04 banded solve is exact on a nonsingular system", format!("{} b={}", desc, qs(&rhs)), qs(&vq(&s)), qs(&x)); },
                Err(e) => if !e.contains("division by zero") && !e.contains("overflow") { report(out, "C04 banded solve panicked", format!("{} b={}", desc, qs(&rhs)), e, qs(&x)); } else {
                    report(out, "C04 banded solve divides by zero on a nonsingular system", format!("{} b={}", desc, qs(&rhs)), e, qs(&x)); },
            }
        }
    } } } }
}
fn c04_f64(rng: &mut Rng, out: &mut Out) {
    // f64 twin: magnitude pivoting inside the band with negative / tiny / zero diagonals; padding value must not matter
    for n in 1..up(7, 11) { for m1 in 0..n { for m2 in 0..n { for rep in 0..7 { case();
        let tiny = if rep == 6 { f64::from_bits(1u64 << 44) } else { 1.0 };      // rep 6: every entry subnormal (2^-1030 times a small integer)
        let pad = [7.5, f64::NAN, f64::INFINITY, 7.5, -1.0e300, 7.5, 7.5][rep];      // storage slots outside the matrix hold arbitrary values, non-finite ones included
        let mut b = Banded::<f64>::new(n, m1, m2, pad);
        let mut d = vec![vec![0.0f64; n]; n];
        for i in 0..n { for j in 0..n { if j <= i + m2 && i <= j + m1 {
            let mut v = rng.int(-4, 4) as f64;
            if i == j { v = match rep { 0 | 6 => -(1.0 + rng.below(3) as f64), 1 => if m1 > 0 && i + 1 < n { 0.0 } else { 2.0 }, 2 => if m1 > 0 && i + 1 < n { 1.0e-17 } else { 3.0 }, _ => v }; }
            if rep == 1 && i == j + 1 { v = -3.0; }
            if rep == 2 && i == j + 1 { v = 2.0; }
            // rep 4 / 5: a pivot column (the first / every one) holds a zero or tiny diagonal, an entry of order one just below it and
            // a tiny entry - still larger than the diagonal - at the bottom of the band: only the LARGEST magnitude is a safe pivot
            if rep >= 4 && m1 >= 2 && (j == 0 || rep == 5) && j + m1 < n {
                if i == j { v = if (n + m1 + m2) % 2 == 0 { 0.0 } else { 1.0e-18 }; }
                if i == j + 1 { v = if rng.below(2) == 0 { 3.0 } else { -2.0 }; }
                if i == j + m1 { v = if rng.below(2) == 0 { 1.0e-17 } else { -1.0e-17 }; }
            }
            let v = v * tiny;
            b[(i, j)] = v; d[i][j] = v;
        } } }
        let dq: M = d.iter().map(|r| r.iter().map(|x| { let x = *x / tiny; if x.abs() < 1e-10 && x != 0.0 { Q::int(0) } else { Q::int(x as i64) } }).collect()).collect();
        if det_ref(&dq).is_zero() { continue; }
        let xs: Vec<f64> = (0..n).map(|_| rng.int(-4, 4) as f64).collect();
        let rhs: Vec<f64> = (0..n).map(|i| (0..n).map(|j| d[i][j] * xs[j]).sum()).collect();
        let desc = format!("n={} m1={} m2={} padding={} dense={:?} b={:?}", n, m1, m2, pad, d, rhs);
        match quiet(|| &b * &Vector::create(xs.clone())) {
            Ok(p) => { let e = (0..n).map(|i| (p[i] - rhs[i]).abs()).fold(0.0f64, nmax); if !(e <= 1e-9 * tiny * (1.0 + rhs.iter().fold(0.0f64, |s, v| s.max((v / tiny).abs())))) { report(out, "C04 f64 banded product agrees with the dense product whatever the padding holds", desc.clone(), format!("{:?}", (0..n).map(|i| p[i]).collect::<Vec<_>>()), format!("{:?}", rhs)); } }
            Err(e) => report(out, "C04 f64 banded product panicked", desc.clone(), e, "a product".into()) }
        match quiet(|| b.solve(&Vector::create(rhs.clone()))) {
            Ok(x) => { let res = (0..n).map(|i| ((0..n).map(|j| d[i][j] * x[j]).sum::<f64>() - rhs[i]).abs()).fold(0.0f64, nmax);
                let sc = tiny * (1.0 + d.iter().flatten().fold(0.0f64, |s, v| s.max((v / tiny).abs())) * (0..n).map(|i| x[i].abs()).fold(0.0f64, nmax) * n as f64);
                if !(res <= 1e-9 * sc) { report(out, "C04 f64 banded solve: small backward error whatever the signs", desc.clone(), format!("residual {:e}", res), "rounding size".into()); } }
            Err(e) => report(out, "C04 f64 banded solve panicked on a nonsingular system", desc.clone(), e, "a solution".into()),
        }
        if n <= 5 && rep != 6 { match quiet(|| b.det()) {
            Ok(dd) => { let dr = det_ref(&dq).to_f64(); if !((dd - dr).abs() <= 1e-7 * (1.0 + dr.abs())) { report(out, "C04 f64 banded det agrees with the dense determinant", desc.clone(), format!("{}", dd), format!("{}", dr)); } }
            Err(e) => report(out, "C04 f64 banded det panicked", desc.clone(), e, "a value".into()) } }
    } } } }
}
fn c05_f64(rng: &mut Rng, out: &mut Out) {
    for n in 1..up(10, 13) { for sc in [1.0, 1.0e-17, 1.0e-30, 9.313225746154785e-10 /* 2^-30 */, 1.0e12, f64::from_bits(1u64 << 44) /* 2^-1030: subnormal entries */, 1.0e300] { case();
        let sub: Vec<f64> = (0..n - 1).map(|_| rng.int(-2, 2) as f64 * sc).collect();
        let sup: Vec<f64> = (0..n - 1).map(|_| rng.int(-2, 2) as f64 * sc).collect();
        let main: Vec<f64> = (0..n).map(|_| (5 + rng.below(4)) as f64 * sc * if rng.below(2) == 0 { 1.0 } else { -1.0 }).collect();      // diagonally dominant
        let xs: Vec<f64> = (0..n).map(|_| rng.int(-4, 4) as f64).collect();
        let rhs: Vec<f64> = (0..n).map(|i| main[i] * xs[i] + if i > 0 { sub[i - 1] * xs[i - 1] } else { 0.0 } + if i + 1 < n { sup[i] * xs[i + 1] } else { 0.0 }).collect();
        let t = Tridiagonal::with_vecs(sub.clone(), main.clone(), sup.clone());
        let ctx = format!("sub={:?} main={:?} sup={:?} r={:?}", sub, main, sup, rhs);
        match quiet(|| t.solve(&Vector::create(rhs.clone()))) {
            Ok(x) => { let err = (0..n).map(|i| (x[i] - xs[i]).abs()).fold(0.0f64, nmax); if !(err <= 1e-9) { report(out, "C05 f64 solve of a diagonally dominant system of any scale is accurate", ctx, format!("max error {:e}", err), "<= 1e-9".into()); } }
            Err(e) => report(out, "C05 f64 solve refused a diagonally dominant system (no pivot is zero)", ctx, e, "a solution".into()),
        }
    } }
}
fn c05_assemble(rng: &mut Rng, out: &mut Out) {
    for n in 1..8usize { case();
        let mut t = Tridiagonal::<Q>::new(n); let mut d: M = vec![vec![Q::int(0); n]; n];
        let mut order: Vec<(usize, usize)> = vec![]; for i in 0..n { order.push((i, i)); if i + 1 < n { order.push((i, i + 1)); order.push((i + 1, i)); } }
        for k in (1..order.len()).rev() { let s2 = rng.below(k as u64 + 1) as usize; order.swap(k, s2); }
        let mut hist = vec![];
        for (i, j) in order { let v = rng.q_nz(); t[(i, j)] = v; d[i][j] = v; hist.push(format!("t[({},{})]={:?}", i, j, v.n));
            if t[(i, j)] != v { report(out, "C05 an element written through the index operator reads back at the same position", hist.join("; "), format!("{:?}", t[(i, j)]), format!("{:?}", v)); break; } }
        let ctx = format!("n={} {}", n, hist.join("; "));
        match quiet(|| t.convert()) { Ok(c) => if from_matrix(&c) != d { report(out, "C05 a matrix assembled element by element converts to its dense twin", ctx.clone(), mq(&from_matrix(&c)), mq(&d)); }, Err(e) => report(out, "C05 convert panicked", ctx.clone(), e, mq(&d)) }
        let x: Vec<Q> = (0..n).map(|_| rng.q()).collect();
        match quiet(|| &t * &Vector::create(x.clone())) { Ok(p) => if vq(&p) != matvec(&d, &x) { report(out, "C05 a matrix assembled element by element multiplies like its dense twin", format!("{} x={}", ctx, qs(&x)), qs(&vq(&p)), qs(&matvec(&d, &x))); }, Err(e) => report(out, "C05 product panicked", ctx.clone(), e, "a product".into()) }
        for i in 0..n { for j in 0..n { if (i as i64 - j as i64).abs() <= 1 && t[(i, j)] != d[i][j] { report(out, "C05 element access agrees with the dense twin after element-wise assembly", ctx.clone(), format!("({},{})={:?}", i, j, t[(i, j)]), format!("{:?}", d[i][j])); } } }
    }
}
fn c05_ctor(out: &mut Out) {
    for n in 1..6usize { case();
        let mut rs = Tridiagonal::<Q>::new(1); rs.resize(n);
        let variants: Vec<(&'static str, Tridiagonal<Q>)> = vec![("new(n)", Tridiagonal::<Q>::new(n)), ("with_elements(1, 2, 3, n)", Tridiagonal::<Q>::with_elements(Q::int(1), Q::int(2), Q::int(3), n)), ("new(1).resize(n)", rs)];
        for (name, t) in variants { case();
            let (ls, lm, lu) = (t.subdiagonal().size(), t.maindiagonal().size(), t.superdiagonal().size());
            if ls != n - 1 || lm != n || lu != n - 1 || t.size() != n { report(out, "C05 a tridiagonal matrix of order n has diagonals of lengths n-1, n, n-1 however it was built", format!("{} n={}", name, n), format!("size {} diagonals {}, {}, {}", t.size(), ls, lm, lu), format!("size {} diagonals {}, {}, {}", n, n - 1, n, n - 1)); continue; }
            let other = Tridiagonal::<Q>::with_vecs(vec![Q::int(1); n - 1], vec![Q::int(5); n], vec![Q::int(2); n - 1]);
            match quiet(|| { let s = t.clone() + other.clone(); let d2 = t.clone() - other.clone(); (s.size(), d2.size()) }) { Ok(sz) => if sz != (n, n) { report(out, "C05 sum / difference with a matrix of the same order built from vectors", format!("{} n={}", name, n), format!("{:?}", sz), format!("({}, {})", n, n)); },
                Err(e) => report(out, "C05 a matrix built by a constructor is rejected by + / - with one of the same order built from vectors", format!("{} n={}", name, n), e, "a sum".into()) }
            match quiet(|| Tridiagonal::<Q>::with_vectors(t.subdiagonal().clone(), t.maindiagonal().clone(), t.superdiagonal().clone()).size()) { Ok(sz) => if sz != n { report(out, "C05 rebuilding a matrix from its own three diagonals", format!("{} n={}", name, n), format!("{}", sz), format!("{}", n)); },
                Err(e) => report(out, "C05 rebuilding a matrix from its own three diagonals panicked", format!("{} n={}", name, n), e, "the same matrix".into()) }
        }
    }
}
fn c05(rng: &mut Rng, out: &mut Out) {
    for n in 1..up(8, 13) { for rep in 0..12 { case();
        let sub: Vec<Q> = (0..n - 1).map(|_| if rep % 4 == 0 { Q::int(0) } else { rng.q() }).collect();
        let sup: Vec<Q> = (0..n - 1).map(|_| rng.q()).collect();
        let mut main: Vec<Q> = (0..n).map(|_| if rep % 5 == 0 { Q::int(0) } else { rng.q() }).collect();
        if rep % 3 == 1 && n >= 2 { let j = 1 + rng.below(n as u64 - 1) as usize; main[j] = Q::int(0); }      // a zero diagonal entry that need not be a zero pivot
        let t = Tridiagonal::with_vecs(sub.clone(), main.clone(), sup.clone());
        let mut d: M = vec![vec![Q::int(0); n]; n];
        for i in 0..n { d[i][i] = main[i]; if i + 1 < n { d[i + 1][i] = sub[i]; d[i][i + 1] = sup[i]; } }
        let desc = format!("sub={} main={} sup={}", qs(&sub), qs(&main), qs(&sup));
        match quiet(|| t.convert()) { Ok(c) => if from_matrix(&c) != d { report(out, "C05 convert == dense twin", desc.clone(), mq(&from_matrix(&c)), mq(&d)); }, Err(e) => report(out, "C05 convert panicked", desc.clone(), e, mq(&d)) }
        let x: Vec<Q> = (0..n).map(|_| rng.q()).collect();
        match quiet(|| &t * &Vector::create(x.clone())) { Ok(p) => if vq(&p) != matvec(&d, &x) { report(out, "C05 product == dense product", format!("{} x={}", desc, qs(&x)), qs(&vq(&p)), qs(&matvec(&d, &x))); },
            Err(e) => report(out, "C05 product panicked", format!("{} x={}", desc, qs(&x)), e, qs(&matvec(&d, &x))) }
        match quiet(|| t.clone() * Vector::create(x.clone())) { Ok(p) => if vq(&p) != matvec(&d, &x) { report(out, "C05 consuming product == dense product", format!("{} x={}", desc, qs(&x)), qs(&vq(&p)), qs(&matvec(&d, &x))); },
            Err(e) => report(out, "C05 consuming product panicked", format!("{} x={}", desc, qs(&x)), e, qs(&matvec(&d, &x))) }
        { let t2 = Tridiagonal::with_vecs(sup.clone(), main.clone(), sub.clone());       // the transpose as a second operand
          if let (Ok(sm), Ok(df)) = (quiet(|| t.clone() + t2.clone()), quiet(|| t.clone() - t2.clone())) {
              for i in 0..n { for j in 0..n { if (i as i64 - j as i64).abs() <= 1 {
                  if sm[(i, j)] != d[i][j] + d[j][i] || df[(i, j)] != d[i][j] - d[j][i] { report(out, "C05 sum / difference of tridiagonal matrices is entrywise", desc.clone(), format!("({},{})", i, j), "entrywise".into()); } } } } } }
        match quiet(|| t.det()) { Ok(dd) => if dd != det_ref(&d) && n <= 6 { report(out, "C05 det == dense det", desc.clone(), format!("{:?}", dd), format!("{:?}", det_ref(&d))); }, Err(e) => report(out, "C05 det panicked", desc.clone(), e, "det".into()) }
        let tt = t.transpose(); for i in 0..n { for j in 0..n { if (i as i64 - j as i64).abs() <= 1 && tt[(i, j)] != d[j][i] { report(out, "C05 transpose", desc.clone(), format!("({},{})={:?}", i, j, tt[(i, j)]), format!("{:?}", d[j][i])); } } }
        // solve: exact, or refuses with a zero-pivot panic; never a wrong / non-finite answer
        let rhs = matvec(&d, &x);
        match quiet(|| t.solve(&Vector::create(rhs.clone()))) {
            Ok(s) => { if matvec(&d, &vq(&s)) != rhs { report(out, "C05 solve returns a solution or refuses", format!("{} r={}", desc, qs(&rhs)), qs(&vq(&s)), "T*x == r".into()); } }
            Err(e) => {
                if !e.contains("Tridiagonal error") { report(out, "C05 solve must refuse with the zero-pivot message, not fail otherwise", format!("{} r={}", desc, qs(&rhs)), e.clone(), "zero-pivot panic or exact solution".into()); }
                // the pivots of elimination without interchanges: beta_0 = main_0, beta_j = main_j - sub_{j-1} sup_{j-1} / beta_{j-1}
                let mut beta = main[0]; let mut zero_pivot = beta == Q::int(0);
                for j in 1..n { if zero_pivot { break; } beta = main[j] - sub[j - 1] * sup[j - 1] / beta; if beta == Q::int(0) { zero_pivot = true; } }
                if !zero_pivot { report(out, "C05 solve refuses only when elimination meets a zero pivot", format!("{} r={}", desc, qs(&rhs)), e, format!("the exact solution {} (no pivot is zero)", qs(&x))); }
            }
        }
    } }
}

// ---------------------------------------------------------------- C06 / C07 sparse
fn rand_pattern(rng: &mut Rng, r: usize, c: usize) -> Vec<(usize, usize, Q)> {
    let mut t = vec![];
    let dense = up(0, 1) == 1 && rng.below(2) == 0;      // big pass: every other pattern is nearly full (long columns)
    for i in 0..r { for j in 0..c { if (if dense { rng.below(10) != 0 } else { rng.below(3) == 0 }) { t.push((i, j, rng.q_nz())); } } }
    // random permutation of the triplet order
    for k in (1..t.len()).rev() { let s = rng.below(k as u64 + 1) as usize; t.swap(k, s); }
    t
}
fn dense_of(t: &[(usize, usize, Q)], r: usize, c: usize) -> M { let mut d = vec![vec![Q::int(0); c]; r]; for &(i, j, v) in t { d[i][j] = v; } d }
fn sparse_wf(s: &Sparse<Q>) -> Option<String> {
    if s.col_start.len() != s.cols + 1 { return Some(format!("col_start.len()={} cols={}", s.col_start.len(), s.cols)); }
    if s.col_start[0] != 0 || s.col_start[s.cols] != s.nonzero { return Some(format!("col_start={:?} nonzero={}", s.col_start, s.nonzero)); }
    if s.col_start.windows(2).any(|w| w[0] > w[1]) { return Some(format!("col_start not rising: {:?}", s.col_start)); }
    if s.val.len() != s.nonzero || s.row_index.len() != s.nonzero { return Some("array lengths".into()); }
    if s.row_index.iter().any(|&i| i >= s.rows) { return Some(format!("row index out of range: {:?}", s.row_index)); }
    None
}
fn sparse_views_agree(s: &Sparse<Q>, d: &M, ctx: &str, out: &mut Out) {
    let (r, c) = (d.len(), if d.is_empty() { 0 } else { d[0].len() });
    if let Some(e) = sparse_wf(s) { report(out, "C06 compressed-column structure stays well-formed", ctx.to_string(), e, "well-formed".into()); return; }
    for i in 0..r { for j in 0..c {
        let g = quiet(|| s.get(i, j));
        let e = if d[i][j].is_zero() { None } else { Some(d[i][j]) };
        match g { Ok(g) => if g != e && !(g == Some(Q::int(0)) && e.is_none()) { report(out, "C06 get agrees with the reference matrix", format!("{} at ({},{})", ctx, i, j), format!("{:?}", g), format!("{:?}", e)); },
                  Err(p) => report(out, "C06 get panicked", format!("{} at ({},{})", ctx, i, j), p, format!("{:?}", e)) }
    } }
    if r * c > 0 { match quiet(|| s.to_dense()) { Ok(td) => if from_matrix(&td) != *d { report(out, "C06 to_dense agrees with the reference matrix", ctx.to_string(), mq(&from_matrix(&td)), mq(d)); }, Err(p) => report(out, "C06 to_dense panicked", ctx.to_string(), p, mq(d)) } }
    if let Ok(tr) = quiet(|| s.to_triplets()) { let dd = dense_of(&tr, r, c); if dd != *d || tr.len() != s.nonzero { report(out, "C06 to_triplets agrees with the reference matrix", ctx.to_string(), format!("{:?}", tr.iter().map(|t| (t.0, t.1)).collect::<Vec<_>>()), mq(d)); } }
}
fn c06_raw(rng: &mut Rng, out: &mut Out) {
    for _ in 0..120 { case();
        let (r, c) = (1 + rng.below(up(5, 8) as u64) as usize, 1 + rng.below(up(5, 8) as u64) as usize);
        let mut d: M = vec![vec![Q::int(0); c]; r];
        let (mut val, mut ri, mut cs) = (vec![], vec![], vec![0usize]);
        for j in 0..c { let mut rows: Vec<usize> = (0..r).filter(|_| rng.below(2) == 0).collect();
            for k in (1..rows.len()).rev() { let t = rng.below(k as u64 + 1) as usize; rows.swap(k, t); }      // the rows of a column in any order
            for i in rows { let v = if rng.below(3) == 0 { Q::int(2) } else { rng.q_nz() }; d[i][j] = v; val.push(v); ri.push(i); }      // repeated values are frequent
            cs.push(val.len()); }
        let ctx0 = format!("from_vecs({}, {}, val={}, row_index={:?}, col_start={:?})", r, c, qs(&val), ri, cs);
        let mut s = match quiet(|| Sparse::<Q>::from_vecs(r, c, val.clone(), ri.clone(), cs.clone())) { Ok(s) => s, Err(e) => { report(out, "C06 from_vecs panicked on well-formed arrays", ctx0, e, "a matrix".into()); continue; } };
        sparse_views_agree(&s, &d, &ctx0, out);
        let mut ctx = ctx0;
        for _ in 0..3 { let (i, j, v) = (rng.below(r as u64) as usize, rng.below(c as u64) as usize, rng.q_nz());
            if quiet(std::panic::AssertUnwindSafe(|| s.insert(i, j, v))).is_err() { report(out, "C06 insert panicked on an in-range position", ctx.clone(), format!("insert({},{},{:?})", i, j, v), "stored".into()); break; }
            d[i][j] = v; ctx = format!("{}; insert({},{},{})", ctx, i, j, v.n); sparse_views_agree(&s, &d, &ctx, out); }
    }
}
fn c06(rng: &mut Rng, out: &mut Out) {
    for _it in 0..250 { case();
        let (r, c) = (1 + rng.below(up(5, 8) as u64) as usize, 1 + rng.below(up(5, 8) as u64) as usize);
        let mut t = rand_pattern(rng, r, c);
        let mut d = dense_of(&t, r, c);
        let ctx0 = format!("from_triplets {}x{} {:?}", r, c, t.iter().map(|x| (x.0, x.1, x.2.n)).collect::<Vec<_>>());
        let s = quiet(|| Sparse::<Q>::from_triplets(r, c, &mut t));
        let mut s = match s { Ok(s) => s, Err(e) => { report(out, "C06 from_triplets panicked", ctx0, e, "a matrix".into()); continue; } };
        sparse_views_agree(&s, &d, &ctx0, out);
        let mut ctx = ctx0.clone();
        for _ in 0..5 { case();
            match rng.below(4) {
                0 | 3 => { let (i, j, v) = (rng.below(r as u64) as usize, rng.below(c as u64) as usize, if rng.below(4) == 0 { Q::int(0) } else { rng.q_nz() });      // explicit zeros are stored entries too
                       if quiet(|| s.insert(i, j, v)).is_err() { report(out, "C06 insert panicked", format!("{}; insert({},{})", ctx, i, j), "panic".into(), "ok".into()); return; }
                       d[i][j] = v; ctx = format!("{}; insert({},{},{})", ctx, i, j, v.n); sparse_views_agree(&s, &d, &ctx, out); }
                1 => { let v = rng.q_nz(); s.scale(&v); for row in d.iter_mut() { for x in row.iter_mut() { *x = *x * v; } } ctx = format!("{}; scale({})", ctx, v.n); sparse_views_agree(&s, &d, &ctx, out); }
                _ => { match quiet(|| s.transpose()) { Ok(t2) => { let dt: M = (0..c).map(|j| (0..r).map(|i| d[i][j]).collect()).collect();
                           sparse_views_agree(&t2, &dt, &format!("{}; transpose", ctx), out);
                           if let Ok(t3) = quiet(|| t2.transpose()) { sparse_views_agree(&t3, &d, &format!("{}; transpose; transpose", ctx), out); } else { report(out, "C06 transpose of a transpose panicked", ctx.clone(), "panic".into(), "ok".into()); } }
                       Err(e) => report(out, "C06 transpose panicked", ctx.clone(), e, "ok".into()) } }
            }
        }
    }
}
fn c07_insert(rng: &mut Rng, out: &mut Out) {
    // the same identities on matrices built by a history of inserts (new entries and overwrites), then scaled
    for _ in 0..150 { case();
        let (r, c) = (1 + rng.below(up(5, 8) as u64) as usize, 1 + rng.below(up(5, 8) as u64) as usize);
        let mut t = rand_pattern(rng, r, c);
        let mut d = dense_of(&t, r, c);
        let mut s = match quiet(|| Sparse::<Q>::from_triplets(r, c, &mut t)) { Ok(s) => s, Err(_) => continue };
        let mut hist = vec![format!("{}x{} start {}", r, c, mq(&d))];
        for _ in 0..4 { case();
            let (i, j, v) = (rng.below(r as u64) as usize, rng.below(c as u64) as usize, Q::int(rng.int(-4, 4)));
            if v.is_zero() && rng.below(2) == 0 { continue; }      // every other zero is stored explicitly
            if quiet(std::panic::AssertUnwindSafe(|| s.insert(i, j, v))).is_err() { report(out, "C07 insert panicked on an in-range position", hist.join("; "), format!("insert({},{},{:?})", i, j, v), "stored".into()); break; }
            d[i][j] = v; hist.push(format!("insert({},{},{:?})", i, j, v));
        }
        let k = Q::int(rng.int(-3, 3)); if !k.is_zero() { s.scale(&k); for row in d.iter_mut() { for e in row.iter_mut() { *e = *e * k; } } hist.push(format!("scale({:?})", k)); }
        let ctx = hist.join("; ");
        let x: Vec<Q> = (0..c).map(|_| rng.q()).collect(); let y: Vec<Q> = (0..r).map(|_| rng.q()).collect();
        let dt: M = (0..c).map(|j| (0..r).map(|i| d[i][j]).collect()).collect();
        match quiet(|| s.multiply(&Vector::create(x.clone()))) { Ok(p) => if vq(&p) != matvec(&d, &x) { report(out, "C07 after inserts and scale: A*x == dense A*x", format!("{} x={}", ctx, qs(&x)), qs(&vq(&p)), qs(&matvec(&d, &x))); }, Err(e) => report(out, "C07 multiply panicked after inserts", ctx.clone(), e, "a product".into()) }
        match quiet(|| s.transpose_multiply(&Vector::create(y.clone()))) { Ok(p) => if vq(&p) != matvec(&dt, &y) { report(out, "C07 after inserts and scale: A^T*y == dense A^T*y", format!("{} y={}", ctx, qs(&y)), qs(&vq(&p)), qs(&matvec(&dt, &y))); }, Err(e) => report(out, "C07 transpose_multiply panicked after inserts", ctx.clone(), e, "a product".into()) }
        match quiet(|| s.transpose().multiply(&Vector::create(y.clone()))) { Ok(p) => if vq(&p) != matvec(&dt, &y) { report(out, "C07 after inserts and scale: transpose().multiply(y) == A^T*y", format!("{} y={}", ctx, qs(&y)), qs(&vq(&p)), qs(&matvec(&dt, &y))); }, Err(e) => report(out, "C07 transpose panicked after inserts", ctx.clone(), e, "a product".into()) }
        // the explicit transpose as an object of its own: well-formed, element lookup everywhere (empty positions included), and usable as
        // the input of the next call (scale, then multiply)
        match quiet(std::panic::AssertUnwindSafe(|| { let mut at = s.transpose(); let wf = sparse_wf(&at);
                let look: Vec<Vec<Q>> = (0..c).map(|i| (0..r).map(|j| at.get(i, j).unwrap_or(Q::int(0))).collect()).collect();
                at.scale(&Q::int(3)); let p = vq(&at.multiply(&Vector::create(y.clone()))); (wf, look, p) })) {
            Ok((wf, look, p)) => {
                if let Some(why) = wf { report(out, "C07 the explicit transpose is a well-formed compressed-column matrix", ctx.clone(), why, "well-formed".into()); }
                if look != dt { report(out, "C07 element lookup in the explicit transpose agrees with the dense transpose at every position", ctx.clone(), mq(&look), mq(&dt)); }
                let e: Vec<Q> = matvec(&dt, &y).iter().map(|v| *v * Q::int(3)).collect();
                if p != e { report(out, "C07 the explicit transpose, scaled, multiplies like 3 A^T", format!("{} y={}", ctx, qs(&y)), qs(&p), qs(&e)); } }
            Err(e) => report(out, "C07 lookup / scale / multiply on the explicit transpose panicked", ctx.clone(), e, "values".into()) }
    }
}
fn c07_raw(rng: &mut Rng, out: &mut Out) {
    for _ in 0..80 { case();
        let (r, c) = (1 + rng.below(up(5, 8) as u64) as usize, 1 + rng.below(up(5, 8) as u64) as usize);
        let mut d: M = vec![vec![Q::int(0); c]; r];
        let (mut val, mut ri, mut cs) = (vec![], vec![], vec![0usize]);
        for j in 0..c { let mut rows: Vec<usize> = (0..r).filter(|_| rng.below(2) == 0).collect();
            for k in (1..rows.len()).rev() { let t = rng.below(k as u64 + 1) as usize; rows.swap(k, t); }
            for i in rows { let v = if rng.below(3) == 0 { Q::int(2) } else { rng.q_nz() }; d[i][j] = v; val.push(v); ri.push(i); }
            cs.push(val.len()); }
        let mut s = match quiet(|| Sparse::<Q>::from_vecs(r, c, val.clone(), ri.clone(), cs.clone())) { Ok(s) => s, Err(_) => continue };
        let mut ctx = format!("from_vecs({}, {}, val={}, row_index={:?}, col_start={:?})", r, c, qs(&val), ri, cs);
        for _ in 0..2 { if val.is_empty() { break; } let k = rng.below(val.len() as u64) as usize; let (i, j) = (ri[k], (0..c).find(|&j| cs[j] <= k && k < cs[j + 1]).unwrap()); let v = rng.q_nz();
            if quiet(std::panic::AssertUnwindSafe(|| s.insert(i, j, v))).is_err() { report(out, "C07 insert panicked on an in-range position", ctx.clone(), format!("insert({},{},{:?})", i, j, v), "stored".into()); break; }
            d[i][j] = v; ctx = format!("{}; insert({},{},{})", ctx, i, j, v.n); }
        let x: Vec<Q> = (0..c).map(|_| rng.q()).collect(); let y: Vec<Q> = (0..r).map(|_| rng.q()).collect();
        let dt: M = (0..c).map(|j| (0..r).map(|i| d[i][j]).collect()).collect();
        match quiet(|| s.multiply(&Vector::create(x.clone()))) { Ok(p) => if vq(&p) != matvec(&d, &x) { report(out, "C07 raw arrays (rows of a column in any order), overwritten entries: A*x == dense A*x", format!("{} x={}", ctx, qs(&x)), qs(&vq(&p)), qs(&matvec(&d, &x))); }, Err(e) => report(out, "C07 multiply panicked", ctx.clone(), e, "A*x".into()) }
        match quiet(|| s.transpose_multiply(&Vector::create(y.clone()))) { Ok(p) => if vq(&p) != matvec(&dt, &y) { report(out, "C07 raw arrays (rows of a column in any order), overwritten entries: A^T*y == dense A^T*y", format!("{} y={}", ctx, qs(&y)), qs(&vq(&p)), qs(&matvec(&dt, &y))); }, Err(e) => report(out, "C07 transpose_multiply panicked", ctx.clone(), e, "A^T*y".into()) }
    }
}
fn c07_sizes(_rng: &mut Rng, out: &mut Out) {
    for (r, c) in [(2usize, 3usize), (3, 2), (1, 4), (4, 1), (3, 3)] { case();
        let mut t = vec![(0usize, 0usize, Q::int(1)), (r - 1, c - 1, Q::int(2))];
        let s = Sparse::<Q>::from_triplets(r, c, &mut t);
        for len in 0..(r.max(c) + 3) { case();
            let v = Vector::<Q>::new(len, Q::int(1));
            let a = quiet(|| s.multiply(&v)); let at = quiet(|| s.transpose_multiply(&v));
            if (len == c) != a.is_ok() { report(out, "C07 multiply accepts exactly vectors of length cols", format!("{}x{} matrix, vector of length {}", r, c, len), if a.is_ok() { "returned".into() } else { "panic".into() }, if len == c { "a product".into() } else { "panic".into() }); }
            if (len == r) != at.is_ok() { report(out, "C07 transpose_multiply accepts exactly vectors of length rows", format!("{}x{} matrix, vector of length {}", r, c, len), if at.is_ok() { "returned".into() } else { "panic".into() }, if len == r { "a product".into() } else { "panic".into() }); }
        }
    }
}
fn c07(rng: &mut Rng, out: &mut Out) {
    for _ in 0..300 { case();
        let (r, c) = (1 + rng.below(up(6, 10) as u64) as usize, 1 + rng.below(up(6, 10) as u64) as usize);
        let mut t = rand_pattern(rng, r, c);
        if rng.below(3) == 0 { let ec = rng.below(c as u64) as usize; t.retain(|x| x.1 != ec); }      // an empty column
        if rng.below(3) == 0 { let er = rng.below(r as u64) as usize; t.retain(|x| x.0 != er); }      // an empty row
        let d = dense_of(&t, r, c);
        let ctx = format!("{}x{} {}", r, c, mq(&d));
        let t0 = t.clone();
        let s = match quiet(|| Sparse::<Q>::from_triplets(r, c, &mut t)) { Ok(s) => s, Err(_) => continue };
        let x: Vec<Q> = (0..c).map(|_| rng.q()).collect(); let y: Vec<Q> = (0..r).map(|_| rng.q()).collect();
        let dt: M = (0..c).map(|j| (0..r).map(|i| d[i][j]).collect()).collect();
        let ax = quiet(|| s.multiply(&Vector::create(x.clone())));
        match &ax { Ok(p) => if vq(p) != matvec(&d, &x) { report(out, "C07 sparse A*x == dense A*x", format!("{} x={}", ctx, qs(&x)), qs(&vq(p)), qs(&matvec(&d, &x))); }, Err(e) => report(out, "C07 multiply panicked", ctx.clone(), e.clone(), "A*x".into()) }
        match quiet(|| s.transpose_multiply(&Vector::create(y.clone()))) { Ok(p) => if vq(&p) != matvec(&dt, &y) { report(out, "C07 sparse A^T*y == dense A^T*y", format!("{} y={}", ctx, qs(&y)), qs(&vq(&p)), qs(&matvec(&dt, &y))); }, Err(e) => report(out, "C07 transpose_multiply panicked", ctx.clone(), e, "A^T*y".into()) }
        { let mut t2 = t0.clone(); let mut z = Sparse::<Q>::from_triplets(r, c, &mut t2); let k0 = Q::int(0);
          match quiet(std::panic::AssertUnwindSafe(|| { z.scale(&k0); (vq(&z.multiply(&Vector::create(x.clone()))), vq(&z.transpose_multiply(&Vector::create(y.clone())))) })) {
              Ok((p, pt)) => if p != vec![Q::int(0); r] || pt != vec![Q::int(0); c] { report(out, "C07 a matrix scaled by zero keeps its shape: both products are zero vectors of the right lengths", ctx.clone(), format!("lengths {} and {}", p.len(), pt.len()), format!("zero vectors of lengths {} and {}", r, c)); },
              Err(e) => report(out, "C07 products of a matrix scaled by zero panicked", ctx.clone(), e, format!("zero vectors of lengths {} and {}", r, c)) } }
        match quiet(|| s.transpose().multiply(&Vector::create(y.clone()))) { Ok(p) => if vq(&p) != matvec(&dt, &y) { report(out, "C07 A.transpose().multiply(y) == A^T*y", format!("{} y={}", ctx, qs(&y)), qs(&vq(&p)), qs(&matvec(&dt, &y))); }, Err(e) => report(out, "C07 explicit transpose then multiply panicked", ctx.clone(), e, "A^T*y".into()) }
    }
}

// ---------------------------------------------------------------- C08 / C09 iterative solvers (f64)
fn sparse_f(d: &Vec<Vec<f64>>) -> Sparse<f64> { let n = d.len(); let mut t = vec![]; for i in 0..n { for j in 0..d[i].len() { if d[i][j] != 0.0 { t.push((i, j, d[i][j])); } } } Sparse::<f64>::from_triplets(n, n, &mut t) }
fn resid(d: &Vec<Vec<f64>>, x: &Vector<f64>, b: &[f64]) -> f64 {
    let n = d.len(); let mut s = 0.0; let mut nb = 0.0;
    for i in 0..n { let mut r = b[i]; for j in 0..n { r -= d[i][j] * x[j]; } s += r * r; nb += b[i] * b[i]; }
    if nb == 0.0 { s.sqrt() } else { (s / nb).sqrt() }
}
fn solvers(s: &Sparse<f64>, b: &Vector<f64>, x0: &Vector<f64>, maxit: usize, tol: f64) -> Vec<(&'static str, Result<usize, f64>, Vector<f64>)> {
    let mut v = vec![];
    let mut x = x0.clone(); let r = s.solve_cg(b, &mut x, maxit, tol); v.push(("cg", r, x));
    let mut x = x0.clone(); let r = s.solve_bicg(b, &mut x, maxit, tol, 1); v.push(("bicg itol=1", r, x));
    let mut x = x0.clone(); let r = s.solve_bicg(b, &mut x, maxit, tol, 2); v.push(("bicg itol=2", r, x));
    let mut x = x0.clone(); let r = s.solve_bicgstab(b, &mut x, maxit, tol); v.push(("bicgstab", r, x));
    let mut x = x0.clone(); let r = s.solve_qmr(b, &mut x, maxit, tol); v.push(("qmr", r, x));
    v
}
/// the same matrix assembled by edits: triplets in an order that leaves the rows of a column unsorted, a third of the entries first
/// stored with another value and then overwritten by insert, another third inserted as new entries
fn sparse_f_edits(d: &Vec<Vec<f64>>, rng: &mut Rng) -> Sparse<f64> {
    let n = d.len(); let mut t = vec![]; let mut later = vec![];
    for j in 0..n { for i in (0..n).rev() { if d[i][j] != 0.0 { match rng.below(3) { 0 => t.push((i, j, d[i][j])), 1 => { t.push((i, j, d[i][j] + 1.5)); later.push((i, j)); }, _ => later.push((i, j)) } } } }
    let mut s = Sparse::<f64>::from_triplets(n, n, &mut t);
    for (i, j) in later { s.insert(i, j, d[i][j]); }
    s
}
fn solve_one(name: &str, s: &Sparse<f64>, b: &Vector<f64>, x0: &Vector<f64>, maxit: usize, tol: f64) -> (Result<usize, f64>, Vector<f64>) {
    let mut x = x0.clone();
    let r = match name { "cg" => s.solve_cg(b, &mut x, maxit, tol), "bicg itol=1" => s.solve_bicg(b, &mut x, maxit, tol, 1), "bicg itol=2" => s.solve_bicg(b, &mut x, maxit, tol, 2), "bicgstab" => s.solve_bicgstab(b, &mut x, maxit, tol), _ => s.solve_qmr(b, &mut x, maxit, tol) };
    (r, x)
}
fn c08(rng: &mut Rng, out: &mut Out) {
    // the stopping tests are written with Vector::norm_2 and Vector::dot: check them directly (largest entry anywhere)
    for it in 0..200 { case();
        let n = 1 + (it % up(12, 60));
        let mut v: Vec<f64> = (0..n).map(|_| rng.f()).collect();
        let big = rng.below(n as u64) as usize; v[big] *= 1.0 + (it % 7) as f64 * 3.0;
        let w: Vec<f64> = (0..n).map(|_| rng.f()).collect();
        let e2 = v.iter().map(|x| x * x).sum::<f64>().sqrt();
        let g2 = Vec64::create(v.clone()).norm_2();
        if !((g2 - e2).abs() <= 1e-12 * (1.0 + e2)) { report(out, "C08 norm_2 (used by every stopping test) is sqrt(sum x_i^2)", format!("v={:?}", v), format!("{}", g2), format!("{}", e2)); }
        let ed: f64 = v.iter().zip(&w).map(|(a, b)| a * b).sum();
        let gd = Vec64::create(v.clone()).dot(&Vec64::create(w.clone()));
        if !((gd - ed).abs() <= 1e-12 * (1.0 + ed.abs())) { report(out, "C08 dot (used by every recurrence) is sum x_i y_i", format!("v={:?} w={:?}", v, w), format!("{}", gd), format!("{}", ed)); }
    }
    for it in 0..200 { case();
        let n = 1 + rng.below(up(8, 60) as u64) as usize;
        let mut d = vec![vec![0.0f64; n]; n];
        let kind = it % 4;
        for i in 0..n { for j in 0..n { if i == j || rng.below(3) == 0 { d[i][j] = rng.f(); } } }
        if kind == 0 { for i in 0..n { for j in 0..i { d[i][j] = d[j][i]; } d[i][i] = 10.0 + i as f64; } }       // SPD
        if kind == 1 { for i in 0..n { d[i][i] = 20.0; } }                                                        // diagonally dominant
        if kind == 2 { for i in 0..n { for j in 0..n { if i != j { d[i][j] = 0.0; } } d[i][i] = if i % 2 == 0 { 1.0 } else { -1.0 }; } }   // indefinite diagonal
        if kind == 3 && n > 1 { for j in 0..n { d[n - 1][j] = 0.0; } }                                              // singular
        let b: Vec<f64> = (0..n).map(|_| if it % 9 == 0 { 0.0 } else { rng.f() }).collect();
        let x0: Vec<f64> = (0..n).map(|_| match it % 3 { 0 => 0.0, 1 => rng.f(), _ => 500.0 * rng.f() }).collect();
        if it % 5 == 2 { for row in d.iter_mut() { for v in row.iter_mut() { *v *= 1.0e-3; } } }             // small-norm matrix
        let s = if it % 5 == 3 { match quiet(std::panic::AssertUnwindSafe(|| sparse_f_edits(&d, rng))) { Ok(s) => s, Err(e) => { report(out, "C08 assembling a system by inserts panicked", format!("A={:?}", d), e, "a matrix".into()); continue; } } } else { sparse_f(&d) };
        let bv = Vector::create(b.clone()); let xv = Vector::create(x0.clone());
        let tol = [1e-10, 1e-6, 1e-3][it % 3]; let maxit = [0usize, 1, 3, 60, 200, 60][(it / 4) % 6];      // budget independent of the kind of system
        let ctx = format!("A={:?} b={:?} x0={:?} tol={} max_iter={}", d, b, x0, tol, maxit);
        let res = match quiet(|| solvers(&s, &bv, &xv, maxit, tol)) { Ok(r) => r, Err(e) => { report(out, "C08 solver panicked on conforming input", ctx, e, "Ok or Err".into()); continue; } };
        for (name, r, x) in res { case();
            if maxit == 0 && (0..n).any(|i| x[i].to_bits() != x0[i].to_bits()) { report(out, "C08 zero iteration budget leaves x untouched", format!("{} solver={}", ctx, name), format!("{:?}", x), format!("{:?}", x0)); }
            if let Ok(k) = r {
                // the reported count is the number of iterations performed: the same call with exactly that budget succeeds with the same x
                if k <= maxit { let (r2, x2) = solve_one(name, &s, &bv, &xv, k, tol);
                    if r2 != Ok(k) || (0..n).any(|i| x2[i].to_bits() != x[i].to_bits()) { report(out, "C08 the iteration count in Ok(k) is the number of iterations performed (a budget of exactly k reproduces the result)", format!("{} solver={}", ctx, name), format!("Ok({}) then with max_iter={}: {:?}", k, k, r2), format!("Ok({}) and the same x", k)); } }
                if k > maxit { report(out, "C08 reported iterations <= max_iter", format!("{} solver={}", ctx, name), format!("Ok({})", k), format!("<= {}", maxit)); }
                let fin = (0..n).all(|i| x[i].is_finite());
                let rr = resid(&d, &x, &b);
                let cond_guard = kind <= 1;   // drift bound only claimed for well-conditioned systems
                if !fin || (cond_guard && !(rr <= tol * 4.0 + 1e-12)) {
                    report(out, "C08 Ok means x finite and the true relative residual within the tolerance (up to drift)", format!("{} solver={}", ctx, name), format!("Ok({}) x={:?} true residual={:e}", k, x, rr), format!("finite x, residual <= {:e}", tol));
                }
            }
        }
    }
}
fn c09(rng: &mut Rng, out: &mut Out) {
    for it in 0..120 { case();
        let n = 1 + rng.below(up(10, 60) as u64) as usize;
        let mut d = vec![vec![0.0f64; n]; n];
        for i in 0..n { for j in 0..n { if rng.below(3) == 0 { d[i][j] = rng.f(); } } }
        let spd = it % 2 == 0;
        if spd { for i in 0..n { for j in 0..i { d[i][j] = d[j][i]; } } }
        for i in 0..n { d[i][i] = 30.0 + i as f64; }
        let scale = [1.0, 1e-6, 1e6, 1e-20][it % 4];
        let xs: Vec<f64> = (0..n).map(|_| rng.f()).collect();
        let b: Vec<f64> = (0..n).map(|i| scale * (0..n).map(|j| d[i][j] * xs[j]).sum::<f64>()).collect();
        let s = sparse_f(&d); let bv = Vector::create(b.clone());
        let tol = 1e-8;
        let ctx = format!("A={:?} b={:?}", d, b);
        // exact guess and zero rhs with zero guess are accepted as solved, x stays finite
        for (g, what) in [(xs.iter().map(|v| v * scale).collect::<Vec<f64>>(), "exact guess"), (vec![0.0; n], "zero guess")] { case();
            let bb = if what == "zero guess" { Vector::create(vec![0.0; n]) } else { bv.clone() };
            for (name, r, x) in solvers(&s, &bb, &Vector::create(g.clone()), 50, tol) { case();
                if name == "cg" && !spd { continue; }
                let fin = (0..n).all(|i| x[i].is_finite());
                if !fin || r.is_err() { report(out, "C09 an already-solved system is accepted and x stays finite", format!("{} {} solver={}", ctx, what, name), format!("{:?} x={:?}", r, x), "Ok, finite x".into()); }
            }
        }
    }
    // convergence on well-posed systems within O(n) iterations: a FIXED suite (independent of the seed), so that
    // the failures of the unchanged library are a fixed, listed set (known_findings.json) and anything else is new
    if BIG.load(std::sync::atomic::Ordering::Relaxed) { return; }      // the fixed suites run once, in the first pass
    let mut fx = Rng(0x5DEECE66D1234567);
    // two systems on which the unchanged library is known to fail (open findings, see known_findings.json)
    let known: Vec<(Vec<Vec<f64>>, Vec<f64>)> = vec![
        (vec![vec![30.0, 2.0, 0.0, 0.0], vec![0.0, 31.0, 1.5, 0.0], vec![0.0, 0.0, 32.0, -1.5], vec![0.0, -3.0, 0.0, 33.0]], vec![0.0, -6.0, -130.25, 49.5]),
        (vec![vec![30.0, 0.0, 4.0], vec![0.0, 31.0, 0.0], vec![0.0, 0.0, 32.0]], vec![-48.0, -108.5, 96.0]),
    ];
    for it in 0..162 { case();
        let n = 1 + fx.below(10) as usize;
        let mut d = vec![vec![0.0f64; n]; n];
        for i in 0..n { for j in 0..n { if fx.below(3) == 0 { d[i][j] = fx.f(); } } }
        let mut spd = it % 2 == 0;
        if spd { for i in 0..n { for j in 0..i { d[i][j] = d[j][i]; } } }
        for i in 0..n { d[i][i] = 30.0 + i as f64; }
        let scale = [1.0, 1e-6, 1e6, 1e-20][it % 4];
        let xs: Vec<f64> = (0..n).map(|_| fx.f()).collect();
        let mut b: Vec<f64> = (0..n).map(|i| scale * (0..n).map(|j| d[i][j] * xs[j]).sum::<f64>()).collect();
        if it >= 160 { d = known[it - 160].0.clone(); b = known[it - 160].1.clone(); spd = false; }
        let n = d.len();
        let s = sparse_f(&d); let bv = Vector::create(b.clone());
        let ctx = format!("A={:?} b={:?}", d, b);
        for (name, r, x) in solvers(&s, &bv, &Vector::create(vec![0.0; n]), 10 * n + 20, 1e-8) { case();
            if name == "cg" && !spd { continue; }
            let ok = r.is_ok() && resid(&d, &x, &b) <= 1e-5;
            if !ok { report(out, "C09 converges on SPD / strictly diagonally dominant systems", format!("{} solver={}", ctx, name), format!("{:?} residual={:e}", r, resid(&d, &x, &b)), "Ok within 10n+20 iterations".into()); }
            // the reported count is the number of iterations performed
            if let Ok(k) = r { let (r2, x2) = solve_one(name, &s, &bv, &Vector::create(vec![0.0; n]), k, 1e-8);
                if r2 != Ok(k) || (0..n).any(|i| x2[i].to_bits() != x[i].to_bits()) { report(out, "C09 the iteration count in Ok(k) is the number of iterations performed (a budget of exactly k reproduces the result)", format!("{} solver={}", ctx, name), format!("Ok({}) then with max_iter={}: {:?}", k, k, r2), format!("Ok({}) and the same x", k)); } }
        }
        // the same system assembled by edits (unsorted columns, overwrites, new entries), then scaled by 2 together with b, and its
        // explicit transpose: still the system the dense reference describes
        if it < 160 && it % 4 == 2 && spd { case();      // SPD systems only: the listed breakdowns of BiCG / QMR concern nonsymmetric ones
            let mut fz = Rng(0x0BADC0DE12345678 ^ (it as u64).wrapping_mul(0x9E3779B97F4A7C15) | 1);
            match quiet(std::panic::AssertUnwindSafe(|| { let mut e = sparse_f_edits(&d, &mut fz); e.scale(&2.0); let et = e.transpose(); (e, et) })) {
                Ok((e, et)) => { let d2: Vec<Vec<f64>> = d.iter().map(|r| r.iter().map(|v| 2.0 * v).collect()).collect(); let b2: Vec<f64> = b.iter().map(|v| 2.0 * v).collect();
                    let dt2: Vec<Vec<f64>> = (0..n).map(|i| (0..n).map(|j| d2[j][i]).collect()).collect();
                    for (which, m, dd) in [("assembled by edits, scaled", &e, &d2), ("assembled by edits, scaled, transposed", &et, &dt2)] {
                        for (name, r, x) in solvers(m, &Vector::create(b2.clone()), &Vector::create(vec![0.0; n]), 10 * n + 20, 1e-8) { case();
                            let ok = r.is_ok() && resid(dd, &x, &b2) <= 1e-5;
                            if !ok { report(out, "C09 converges on a system assembled by edits, then scaled / transposed", format!("{} ({}) solver={}", ctx, which, name), format!("{:?} residual={:e}", r, resid(dd, &x, &b2)), "Ok within 10n+20 iterations".into()); } } } }
                Err(pe) => report(out, "C09 assembling a system by edits, scaling and transposing it panicked", ctx.clone(), pe, "a matrix".into()) }
        }
    }
    // SPD systems that need about n sweeps: tridiag(-1, 2, -1) of order up to 60 (every solver of the unchanged library converges in
    // at most 1.3 n sweeps to a residual of rounding size), tolerances 1e-10 and 1e-12
    for n in [30usize, 49, 50, 51, 52, 56, 60] { for tol in [1.0e-10, 1.0e-12] { case();
        let mut d = vec![vec![0.0f64; n]; n]; for i in 0..n { d[i][i] = 2.0; if i + 1 < n { d[i][i + 1] = -1.0; d[i + 1][i] = -1.0; } }
        let xs: Vec<f64> = (0..n).map(|i| ((i * 7 + 3) % 11) as f64 - 5.0).collect();
        let b: Vec<f64> = (0..n).map(|i| (0..n).map(|j| d[i][j] * xs[j]).sum::<f64>()).collect();
        let s = sparse_f(&d);
        for (name, r, x) in solvers(&s, &Vector::create(b.clone()), &Vector::create(vec![0.0; n]), 2 * n + 20, tol) { case();
            let ok = r.is_ok() && resid(&d, &x, &b) <= 1e-8;
            if !ok { report(out, "C09 converges on ill-conditioned SPD systems (1-D Laplacian) within 2n+20 sweeps", format!("tridiag(-1,2,-1) n={} tol={:e} solver={}", n, tol, name), format!("{:?} residual={:e}", r, resid(&d, &x, &b)), "Ok, residual of rounding size".into()); }
        }
    } }
    // a zero right-hand side with a non-zero guess (SPD, fixed suite): the solution is x = 0 and every solver gets there
    { let mut fw = Rng(0x0F1E2D3C4B5A6978);
      for it in 0..24 { case();
        let n = 2 + fw.below(9) as usize;
        let mut d = vec![vec![0.0f64; n]; n];
        for i in 0..n { for j in 0..i { if fw.below(3) == 0 { d[i][j] = fw.f(); d[j][i] = d[i][j]; } } d[i][i] = 30.0 + i as f64; }
        let g: Vec<f64> = (0..n).map(|_| { let v = fw.f(); (if v == 0.0 { 1.5 } else { v }) * if it % 2 == 0 { 1.0 } else { 40.0 } }).collect();
        let s = sparse_f(&d); let zero = vec![0.0; n]; let ctx = format!("A={:?} b=0 x0={:?}", d, g);
        for (name, r, x) in solvers(&s, &Vector::create(zero.clone()), &Vector::create(g.clone()), 10 * n + 20, 1e-8) { case();
            let ax = (0..n).map(|i| (0..n).map(|j| d[i][j] * x[j]).sum::<f64>().abs()).fold(0.0f64, nmax);
            let ax0 = (0..n).map(|i| (0..n).map(|j| d[i][j] * g[j]).sum::<f64>().abs()).fold(0.0f64, nmax);
            if !(r.is_ok() && ax <= 1e-5 * (1.0 + ax0)) { report(out, "C09 converges on SPD systems with a zero right-hand side from a non-zero guess", format!("{} solver={}", ctx, name), format!("{:?} |A x|={:e}", r, ax), "Ok, A x ~ 0".into()); }
        }
      } }
    // the same on a fixed suite of SPD systems started from a NON-ZERO guess (both error measures of BiCG)
    let mut fy = Rng(0x1234567DEECE66D5);
    for it in 0..60 { case();
        let n = 2 + fy.below(9) as usize;
        let mut d = vec![vec![0.0f64; n]; n];
        for i in 0..n { for j in 0..i { if fy.below(3) == 0 { d[i][j] = fy.f(); d[j][i] = d[i][j]; } } d[i][i] = 30.0 + i as f64; }
        let xs: Vec<f64> = (0..n).map(|_| fy.f()).collect();
        let b: Vec<f64> = (0..n).map(|i| (0..n).map(|j| d[i][j] * xs[j]).sum::<f64>()).collect();
        let g: Vec<f64> = (0..n).map(|_| fy.f() * if it % 2 == 0 { 1.0 } else { 50.0 }).collect();
        let s = sparse_f(&d); let ctx = format!("A={:?} b={:?} x0={:?}", d, b, g);
        for (name, r, x) in solvers(&s, &Vector::create(b.clone()), &Vector::create(g.clone()), 10 * n + 20, 1e-8) { case();
            let ok = r.is_ok() && resid(&d, &x, &b) <= 1e-5;
            if !ok { report(out, "C09 converges on SPD systems from a non-zero guess", format!("{} solver={}", ctx, name), format!("{:?} residual={:e}", r, resid(&d, &x, &b)), "Ok within 10n+20 iterations".into()); }
        }
    }
}

// ---------------------------------------------------------------- C10 roots
/// |p(z)| and the normwise scale sum |c_k| max(1,|z|)^k
/// (|p(z)|, sum |c_k| |z|^k) for |z| <= 1, and both divided by |z|^n (Horner in 1/z) for |z| > 1, so that neither overflows for a
/// finite z however large; complex arithmetic written out, independent of the library's
fn peval(c: &[Cmplx], z: Cmplx) -> (f64, f64) {
    let m = z.real.abs().max(z.imag.abs());
    let (wr, wi, rev) = if m <= 1.0 && (z.real * z.real + z.imag * z.imag) <= 1.0 { (z.real, z.imag, false) }
        else { let (zr, zi) = (z.real / m, z.imag / m); let den = (zr * zr + zi * zi) * m; (zr / den, -zi / den, true) };
    let aw = if rev { (wr * wr + wi * wi).sqrt() } else { 1.0 };      // the scale uses max(1, |z|)
    let (mut pr, mut pi, mut s) = (0.0f64, 0.0f64, 0.0f64);
    let n = c.len();
    for t in 0..n { let k = if rev { t } else { n - 1 - t };
        let (nr, ni) = (pr * wr - pi * wi + c[k].real, pr * wi + pi * wr + c[k].imag); pr = nr; pi = ni;
        s = s * aw + (c[k].real * c[k].real + c[k].imag * c[k].imag).sqrt(); }
    ((pr * pr + pi * pi).sqrt(), s)
}
fn c10(rng: &mut Rng, out: &mut Out) {
    let mut cases: Vec<Vec<Cmplx>> = vec![];
    for deg in 1..up(8, 13) { for rep in 0..12 { case();
        let mut c: Vec<Cmplx> = (0..=deg).map(|_| Cmplx::new(rng.f(), if rep % 2 == 0 { 0.0 } else { rng.f() })).collect();
        if rep % 3 == 0 { c[0] = Cmplx::new(0.0, 0.0); }
        if rep % 4 == 1 && deg >= 3 { c[1] = Cmplx::new(0.0, 0.0); c[2] = Cmplx::new(0.0, 0.0); }
        if c[deg].abs() == 0.0 { c[deg] = Cmplx::new(1.0, 0.0); }
        cases.push(c);
    } }
    cases.push(vec![Cmplx::new(0.0, 0.0), Cmplx::new(0.0, 0.0), Cmplx::new(1.0, 0.0)]);            // x^2
    cases.push(vec![Cmplx::new(1.0, 0.0), Cmplx::new(0.0, 1.0e6), Cmplx::new(1.0, 0.0)]);          // x^2 + 1e6 i x + 1
    cases.push(vec![Cmplx::new(1.0, 0.0), Cmplx::new(0.0, 0.0), Cmplx::new(0.0, 0.0), Cmplx::new(0.0, 0.0), Cmplx::new(1.0, 0.0)]);  // x^4 + 1
    // a (x - r)^3 and a (x - r)^2 (x - t) with a != +-1 (closed-form branches for repeated roots)
    for (a, r, t) in [(2.0, -1.0, -1.0), (-3.0, 2.0, 2.0), (0.5, 1.0, 1.0), (2.0, 1.0, -2.0), (-4.0, -1.0, 3.0)] {
        let (a, r, t) = (Cmplx::new(a, 0.0), Cmplx::new(r, 0.0), Cmplx::new(t, 0.0));
        // (x - r)^2 (x - t) = x^3 - (2r + t) x^2 + (r^2 + 2 r t) x - r^2 t
        cases.push(vec![a * (Cmplx::new(0.0, 0.0) - r * r * t), a * (r * r + r * t * 2.0), a * (Cmplx::new(0.0, 0.0) - (r * 2.0 + t)), a]);
        let ai = Cmplx::new(0.0, 1.0) * a;
        cases.push(vec![ai * (Cmplx::new(0.0, 0.0) - r * r * t), ai * (r * r + r * t * 2.0), ai * (Cmplx::new(0.0, 0.0) - (r * 2.0 + t)), ai]);
    }
    { let mul = |p: &Vec<Cmplx>, r: f64| -> Vec<Cmplx> { let mut q = vec![Cmplx::new(0.0, 0.0); p.len() + 1]; for (k, c) in p.iter().enumerate() { q[k + 1] = q[k + 1] + *c; q[k] = q[k] - *c * r; } q };
      for roots in [vec![10.0; 7], vec![3.0; 8], vec![1.0, 1.0, -2.0, -2.0, 3.0, 3.0, -0.5, -0.5], vec![1.0, 1.0, 1.0, -2.0, -2.0, -2.0, 0.5, 0.5, 0.5], vec![1.0, 1.0, -1.0, -1.0, 2.0, 2.0, -2.0, -2.0, 0.5, 0.5, -0.5, -0.5]] {
          let mut p = vec![Cmplx::new(1.0, 0.0)]; for r in &roots { p = mul(&p, *r); } cases.push(p); } }
    // sparse polynomials with a large constant term: every derivative vanishes at the origin, where the iteration starts
    for n in 4..=12usize { for c0 in [4000.0, -4000.0, 1.0e6, -1.0e5] {
        let mut v = vec![Cmplx::new(0.0, 0.0); n + 1]; v[0] = Cmplx::new(-c0, 0.0); v[n] = Cmplx::new(1.0, 0.0); cases.push(v.clone());     // x^n - c
        v[1] = Cmplx::new(-3.0, 0.0); cases.push(v.clone());                                                                                  // x^n - 3x - c
        v[1] = Cmplx::new(0.0, 0.0); v[n] = Cmplx::new(2.5, 0.0); v[n / 2] = Cmplx::new(1.0, 0.0); cases.push(v);                             // 2.5 x^n + x^(n/2) - c
    } }
    // one huge root next to small ones (coefficient ratio 1e6 between neighbouring terms): deflating the huge root must not spoil the rest
    for n in 4..=12usize { for (a, bq) in [(0.001, 1000.0), (1.0, 1000.0), (1.0, -1.0e6), (0.001, -1000.0), (0.001, 1.0)] { for c0 in [-1.0, 1.0, 0.5, -1000.0] {
        let mut v = vec![Cmplx::new(0.0, 0.0); n + 1]; v[0] = Cmplx::new(c0, 0.0); v[n] = Cmplx::new(a, 0.0); v[n - 1] = Cmplx::new(bq, 0.0); cases.push(v.clone());
        v[1] = Cmplx::new(3.0, 0.0); cases.push(v.clone()); v[0] = Cmplx::new(0.0, c0); cases.push(v);
    } } }
    for c in cases { for refine in [false, true] { case();
        let deg = c.len() - 1;
        let ctx = format!("coeffs={:?} refine={}", c.iter().map(|z| (z.real, z.imag)).collect::<Vec<_>>(), refine);
        let p = Polynomial::<Cmplx>::new(c.clone());
        match quiet(|| p.roots(refine)) {
            Ok(r) => {
                if r.size() != deg { report(out, "C10 exactly n roots", ctx.clone(), format!("{}", r.size()), format!("{}", deg)); continue; }
                for k in 0..deg { let z = r[k]; let (pz, s) = peval(&c, z);
                    if !z.real.is_finite() || !z.imag.is_finite() || !(pz <= 1e-7 * s.max(1e-300) + 1e-300) {
                        report(out, "C10 every returned value is finite and a root to a small backward error", ctx.clone(), format!("root {} = ({}, {}), |p|={:e}, scale={:e}", k, z.real, z.imag, pz, s), "|p(z)| <= 1e-7 * sum|c_k| max(1,|z|)^k".into()); } }
            }
            Err(e) => report(out, "C10 root finder panicked on degree >= 1", ctx, e, format!("{} roots", deg)),
        }
    } }
    // closed-form degrees 1 and 2 with coefficients of mixed sign and scale (ratio up to 1e6): the stable formulae are
    // accurate to rounding, so the normwise backward error |p(z)| / (max|a_k| max(1,|z|)^n) is held to 1e-13 here
    for it in 0..400 { case();
        let deg = 1 + (it % 2);
        let sc = [1.0, 1.0e3, 1.0e6, 1.0e-3, 1.0e-6];
        let c: Vec<Cmplx> = (0..=deg).map(|_| { let m = sc[rng.below(5) as usize]; let re = rng.f() * m; let im = if it % 3 == 0 { rng.f() * m } else { 0.0 }; Cmplx::new(re, im) }).collect();
        if c[deg].abs() == 0.0 { continue; }
        for refine in [false, true] { case();
            let p = Polynomial::<Cmplx>::new(c.clone());
            if let Ok(r) = quiet(|| p.roots(refine)) {
                let amax = c.iter().fold(0.0f64, |s, z| s.max(z.abs()));
                for k in 0..r.size() { let z = r[k]; let mut pv = Cmplx::new(0.0, 0.0); for j in (0..=deg).rev() { pv = pv * z + c[j]; }
                    let be = pv.abs() / (amax * z.abs().max(1.0).powi(deg as i32));
                    if !(be <= 1.0e-13) { report(out, "C10 closed-form roots (degree <= 2) are accurate to rounding in the normwise backward error", format!("coeffs={:?} refine={}", c.iter().map(|z| (z.real, z.imag)).collect::<Vec<_>>(), refine), format!("root ({}, {}) backward error {:e}", z.real, z.imag, be), "<= 1e-13".into()); } }
            }
        }
    }
    { // products of integer linear factors: the returned values correspond one to one to the true roots - well separated roots of degree
      // 2..6, and double roots in the closed-form degrees (each root as often as its multiplicity)
      let mulr = |p: &Vec<f64>, r: f64| -> Vec<f64> { let mut q = vec![0.0; p.len() + 1]; for (k, c) in p.iter().enumerate() { q[k + 1] += *c; q[k] -= *c * r; } q };
      let sets: Vec<(Vec<f64>, f64)> = vec![(vec![1.0, 2.0], 1e-9), (vec![-3.0, 2.0, 5.0], 1e-7), (vec![1.0, -1.0, 2.0, -2.0], 1e-6), (vec![-4.0, -1.0, 1.0, 3.0, 6.0], 1e-6), (vec![-5.0, -3.0, -1.0, 2.0, 4.0, 7.0], 1e-5),
          (vec![1.0, 1.0], 1e-6), (vec![-2.0, -2.0], 1e-6), (vec![1.0, 1.0, 2.0], 1e-5), (vec![-1.0, -1.0, 3.0], 1e-5), (vec![2.0, 2.0, -3.0], 1e-5), (vec![0.0, 0.0, 1.0], 1e-5), (vec![3.0, -2.0, -2.0], 1e-5), (vec![0.0, 1.0, 2.0], 1e-7), (vec![0.0, 0.0, 5.0, -1.0], 1e-5)];
      for (rts, tolr) in sets { for lead in [1.0, 2.0, -3.0] { for refine in [false, true] { case();
          let mut p = vec![lead]; for r in &rts { p = mulr(&p, *r); }
          let ctx = format!("{} * prod (x - r) for r in {:?} (coefficients {:?}) refine={}", lead, rts, p, refine);
          match quiet(|| Polynomial::<f64>::new(p.clone()).roots(refine)) {
              Ok(z) => { let mut got: Vec<(f64, f64)> = (0..z.size()).map(|k| (z[k].real, z[k].imag)).collect(); got.sort_by(|a, b| a.0.partial_cmp(&b.0).unwrap_or(std::cmp::Ordering::Equal));
                  let mut want = rts.clone(); want.sort_by(|a, b| a.partial_cmp(b).unwrap());
                  let ok = got.len() == want.len() && got.iter().zip(&want).all(|(g, w)| (g.0 - w).abs() <= tolr && g.1.abs() <= tolr);
                  if !ok { report(out, "C10 the returned values correspond one to one to the true roots (each root as often as its multiplicity)", ctx, format!("{:?}", got), format!("{:?}", want)); } }
              Err(e) => report(out, "C10 root finder panicked on degree >= 1", ctx, e, format!("{:?}", rts)) }
      } } } }
    if quiet(|| Polynomial::<f64>::new(vec![3.0]).roots(false)).is_ok() { report(out, "C10 a degree-0 polynomial is rejected", "coeffs=[3.0]".into(), "returned".into(), "panic".into()); }
}

// ---------------------------------------------------------------- C11 / C12 polynomials over Q
fn pq(rng: &mut Rng, len: usize) -> Vec<Q> { (0..len).map(|_| rng.q()).collect() }
fn pev(c: &[Q], x: Q) -> Q { c.iter().rev().fold(Q::int(0), |s, a| s * x + *a) }
fn coeffs_of(p: &Polynomial<Q>) -> Vec<Q> { (0..p.size()).map(|i| p[i]).collect() }
fn c11_cmplx(rng: &mut Rng, out: &mut Out) {
    for _ in 0..120 { case();
        let (mut la, mut lb) = (1 + rng.below(up(5, 9) as u64) as usize, 1 + rng.below(up(5, 9) as u64) as usize);
        if up(0, 1) == 1 && rng.below(4) == 0 { la = 8 + rng.below(2) as usize; lb = la; }
        let gz = |rng: &mut Rng| Cmplx::new(rng.int(-3, 3) as f64, rng.int(-3, 3) as f64);
        let a: Vec<Cmplx> = (0..la).map(|_| gz(rng)).collect(); let b: Vec<Cmplx> = (0..lb).map(|_| gz(rng)).collect();
        let (pa, pb) = (Polynomial::<Cmplx>::new(a.clone()), Polynomial::<Cmplx>::new(b.clone()));
        let ctx = format!("p={:?} q={:?}", a.iter().map(|z| (z.real, z.imag)).collect::<Vec<_>>(), b.iter().map(|z| (z.real, z.imag)).collect::<Vec<_>>());
        let mut conv = vec![Cmplx::new(0.0, 0.0); la + lb - 1];
        for i in 0..la { for j in 0..lb { let (x, y) = (a[i], b[j]); conv[i + j] = Cmplx::new(conv[i + j].real + x.real * y.real - x.imag * y.imag, conv[i + j].imag + x.real * y.imag + x.imag * y.real); } }
        match quiet(|| &pa * &pb) { Ok(pr) => { let bad = pr.size() != conv.len() || (0..conv.len()).any(|k| pr[k].real != conv[k].real || pr[k].imag != conv[k].imag);
                if bad { report(out, "C11 complex polynomial product is the convolution of the coefficients", ctx.clone(), format!("{:?}", (0..pr.size()).map(|k| (pr[k].real, pr[k].imag)).collect::<Vec<_>>()), format!("{:?}", conv.iter().map(|z| (z.real, z.imag)).collect::<Vec<_>>())); } }
            Err(e) => report(out, "C11 complex polynomial product panicked", ctx.clone(), e, "a product".into()) }
        let z = gz(rng); let mut hv = Cmplx::new(0.0, 0.0); for k in (0..la).rev() { hv = Cmplx::new(hv.real * z.real - hv.imag * z.imag + a[k].real, hv.real * z.imag + hv.imag * z.real + a[k].imag); }
        let ev = pa.eval(z); if ev.real != hv.real || ev.imag != hv.imag { report(out, "C11 complex evaluation is Horner's rule", format!("{} z=({}, {})", ctx, z.real, z.imag), format!("({}, {})", ev.real, ev.imag), format!("({}, {})", hv.real, hv.imag)); }
        let sm = &pa + &pb; for k in 0..la.max(lb) { let e = Cmplx::new(if k < la { a[k].real } else { 0.0 } + if k < lb { b[k].real } else { 0.0 }, if k < la { a[k].imag } else { 0.0 } + if k < lb { b[k].imag } else { 0.0 });
            if sm.size() != la.max(lb) || sm[k].real != e.real || sm[k].imag != e.imag { report(out, "C11 complex polynomial sum is termwise and keeps the larger size", ctx.clone(), format!("size {}", sm.size()), format!("size {}", la.max(lb))); break; } }
    }
}
fn c11(rng: &mut Rng, out: &mut Out) {
    c11_cmplx(rng, out);
    for _ in 0..300 { case();
        let (mut la, mut lb) = (rng.below(10) as usize, rng.below(10) as usize);      // lengths 0..9: degrees up to 8 and the empty polynomial
        if up(0, 1) == 1 && rng.below(4) == 0 { la = 8 + rng.below(2) as usize; lb = la; }      // big pass: equal sizes at the top of the range
        let (a, b) = (pq(rng, la), pq(rng, lb));
        let (pa, pb) = (Polynomial::new(a.clone()), Polynomial::new(b.clone()));
        let x = rng.q(); let ctx = format!("p={} q={} x={:?}", qs(&a), qs(&b), x);
        let ev = |c: &Vec<Q>| if c.is_empty() { Q::int(0) } else { pev(c, x) };
        let sum_r = coeffs_of(&(&pa + &pb)); let sum_o = coeffs_of(&(pa.clone() + pb.clone()));
        if sum_r != sum_o { report(out, "C11 consuming + equals borrowed +", ctx.clone(), qs(&sum_o), qs(&sum_r)); }
        if ev(&sum_r) != ev(&a) + ev(&b) { report(out, "C11 (p+q)(x) == p(x)+q(x)", ctx.clone(), qs(&sum_r), "termwise sum".into()); }
        let dif_r = coeffs_of(&(&pa - &pb)); let dif_o = coeffs_of(&(pa.clone() - pb.clone()));
        if dif_r != dif_o { report(out, "C11 consuming - equals borrowed -", ctx.clone(), qs(&dif_o), qs(&dif_r)); }
        if ev(&dif_r) != ev(&a) - ev(&b) { report(out, "C11 (p-q)(x) == p(x)-q(x)", ctx.clone(), qs(&dif_r), "termwise difference".into()); }
        let pr = coeffs_of(&(&pa * &pb)); if ev(&pr) != ev(&a) * ev(&b) || (!a.is_empty() && !b.is_empty() && pr.len() != la + lb - 1) { report(out, "C11 (p*q)(x) == p(x)*q(x), degrees add", ctx.clone(), qs(&pr), "convolution".into()); }
        if coeffs_of(&(pa.clone() * pb.clone())) != pr { report(out, "C11 consuming * equals borrowed *", ctx.clone(), "differs".into(), qs(&pr)); }
        if !a.is_empty() { // squaring: the same object on both sides, and an equal copy
            let mut sq = vec![Q::int(0); 2 * la - 1]; for i in 0..la { for j in 0..la { sq[i + j] = sq[i + j] + a[i] * a[j]; } }
            for (form, got) in [("&p * &p", coeffs_of(&(&pa * &pa))), ("&p * &copy", coeffs_of(&(&pa * &Polynomial::new(a.clone())))), ("p * copy", coeffs_of(&(pa.clone() * Polynomial::new(a.clone()))))] {
                if got != sq { report(out, "C11 a polynomial times itself is the convolution of its coefficients with themselves", format!("p={} [{}]", qs(&a), form), qs(&got), qs(&sq)); } }
            let (sm, df) = (coeffs_of(&(&pa + &pa)), coeffs_of(&(&pa - &pa)));
            if sm != a.iter().map(|c| *c + *c).collect::<Vec<_>>() || df.len() != la || !df.iter().all(|c| c.is_zero()) { report(out, "C11 p + p == 2p and p - p == 0 termwise (same object on both sides)", format!("p={}", qs(&a)), format!("{} / {}", qs(&sm), qs(&df)), "2p / zeros".into()); } }
        if !a.is_empty() {
            for n in 0..=la { // orders 0 ..= degree+1
                let dn = match quiet(|| pa.derivative_n(n)) { Ok(d) => coeffs_of(&d), Err(e) => { report(out, "C11 derivative_n panicked for an order <= degree+1", format!("p={} n={}", qs(&a), n), e, "a polynomial".into()); break; } };
                let mut e = a.clone(); for _ in 0..n { e = (1..e.len()).map(|k| Q::int(k as i64) * e[k]).collect(); }
                if dn != e { report(out, "C11 n-th derivative coefficients", format!("p={} n={}", qs(&a), n), qs(&dn), qs(&e)); break; }
                if !e.is_empty() { match quiet(|| pa.derivative_at(x, n)) {
                    Ok(v) => if v != pev(&e, x) { report(out, "C11 derivative_at(x, n) is the n-th derivative evaluated at x (orders 0 ..= degree)", format!("p={} x={:?} n={}", qs(&a), x, n), format!("{:?}", v), format!("{:?}", pev(&e, x))); break; },
                    Err(er) => { report(out, "C11 derivative_at panicked for an order <= degree", format!("p={} x={:?} n={}", qs(&a), x, n), er, format!("{:?}", pev(&e, x))); break; } } }
            }
        }
        let k = rng.q(); let sm = coeffs_of(&(&pa * k)); if sm != a.iter().map(|c| *c * k).collect::<Vec<_>>() { report(out, "C11 scalar multiple", ctx.clone(), qs(&sm), "termwise".into()); }
        let ng = coeffs_of(&(-&pa)); if ng != a.iter().map(|c| -*c).collect::<Vec<_>>() { report(out, "C11 negation", ctx.clone(), qs(&ng), "termwise".into()); }
    }
}
fn c12(rng: &mut Rng, out: &mut Out) {
    for it in 0..400 { case();
        let (lu, lv) = (1 + rng.below(up(8, 11) as u64) as usize, 1 + rng.below(up(5, 7) as u64) as usize);
        let mut u = pq(rng, lu); let mut v = pq(rng, lv);
        if it % 4 == 0 { for k in 0..lu { if k % 2 == 1 { u[k] = Q::int(0); } } for k in 0..lv { if k % 2 == 1 { v[k] = Q::int(0); } } }      // sparse / even polynomials
        if v[lv - 1].is_zero() { v[lv - 1] = Q::int(1); }
        let ctx = format!("u={} v={}", qs(&u), qs(&v));
        match quiet(|| Polynomial::new(u.clone()).polydiv(&Polynomial::new(v.clone()))) {
            Ok(Ok((q, r))) => {
                let (qc, rc) = (coeffs_of(&q), coeffs_of(&r));
                let back = coeffs_of(&(&(&q * &Polynomial::new(v.clone())) + &r));
                let mut e = u.clone(); let mut bk = back.clone(); while e.len() > 1 && e.last().unwrap().is_zero() { e.pop(); } while bk.len() > 1 && bk.last().unwrap().is_zero() { bk.pop(); }
                let same = bk == e || (bk.iter().all(|c| c.is_zero()) && e.iter().all(|c| c.is_zero()));
                let rdeg_ok = rc.iter().all(|c| c.is_zero()) || rc.len() < lv;
                if !same || !rdeg_ok { report(out, "C12 u == q*v + r and deg r < deg v", ctx, format!("q={} r={}", qs(&qc), qs(&rc)), "exact division identity".into()); }
            }
            Ok(Err(e)) => report(out, "C12 division by a nonzero divisor succeeds", ctx, e.to_string(), "Ok".into()),
            Err(e) => report(out, "C12 polydiv never panics", ctx, e, "Ok".into()),
        }
    }
    for it in 0..3000 { // general floats: success does not depend on exact cancellation; u == q*v + r to rounding at every scale
        let (lu, lv) = if it % 2 == 0 { (7, 3) } else { (1 + rng.below(11) as usize, 1 + rng.below(7) as usize) };
        let su = [1.0, 1.0, 1.0e3, 1.0e-3, 1.0e100, 1.0e-100, 2.0f64.powi(-565), 2.0f64.powi(530)][it % 8];      // 2^-565 ~ 1e-170, 2^530 ~ 1e160
        let mut u: Vec<f64> = (0..lu).map(|_| (rng.unit() * 20.0 - 10.0) * su * if it % 3 == 0 { [1.0, 1.0e3, 1.0e-3][rng.below(3) as usize] } else { 1.0 }).collect();
        let mut v: Vec<f64> = (0..lv).map(|_| (rng.unit() * 20.0 - 10.0) * su).collect();
        if it % 5 == 0 { u[lu - 1] = su; } if v[lv - 1].abs() < 0.5 * su { v[lv - 1] = 3.0 * su; }      // a divisor with a leading coefficient of ordinary relative size
        match quiet(|| Polynomial::new(u.clone()).polydiv(&Polynomial::new(v.clone()))) {
            Ok(Err(e)) => report(out, "C12 succeeds for every float input", format!("u={:?} v={:?}", u, v), e.to_string(), "Ok".into()),
            Ok(Ok((q, r))) => { case();
                // back = q*v + r and its magnitude sum, both divided by su*su' so that nothing overflows (q is of order one relative to u/v)
                let (qc, rc): (Vec<f64>, Vec<f64>) = ((0..q.size()).map(|i| q[i]).collect(), (0..r.size()).map(|i| r[i]).collect());
                let mut worst = 0.0f64;
                for k in 0..lu.max(qc.len() + lv).max(rc.len()) {
                    let mut acc = 0.0f64; let mut mag = 0.0f64;
                    for i in 0..qc.len() { if k >= i && k - i < lv { let t = qc[i] * (v[k - i] / su); acc += t; mag += t.abs(); } }
                    if k < rc.len() { acc += rc[k] / su; mag += (rc[k] / su).abs(); }
                    let uk = if k < lu { u[k] / su } else { 0.0 }; mag += uk.abs();
                    let e = (acc - uk).abs() / (mag + 1.0e-300); if !(e <= worst) { worst = e; }
                }
                let rdeg_ok = rc.iter().all(|c| *c == 0.0) || rc.len() < lv || lu < lv;
                if !(worst <= 1e-9) || !rdeg_ok || qc.iter().chain(rc.iter()).any(|c| !c.is_finite()) { report(out, "C12 f64 division: u == q*v + r to rounding (coefficient by coefficient, normwise) and deg r < deg v, at every scale", format!("u={:?} v={:?}", u, v), format!("q={:?} r={:?} relative defect {:e}", qc, rc, worst), "defect of rounding size".into()); } }
            Err(e) => report(out, "C12 polydiv never panics", format!("u={:?} v={:?}", u, v), e, "Ok".into()),
        }
    }
    // the library's own representations of zero as the NEXT dividend: the empty quotient of a short-by-long division, an empty product
    for lv in 1..4usize { case();
        let v = { let mut v = pq(rng, lv); if v[lv - 1].is_zero() { v[lv - 1] = Q::int(2); } v }; let w = vec![Q::int(1), Q::int(3)];
        let first = quiet(|| Polynomial::new(vec![Q::int(5)]).polydiv(&Polynomial::new({ let mut t = v.clone(); t.push(Q::int(1)); t })));
        let zero_q = match first { Ok(Ok((q, _))) => q, _ => { report(out, "C12 division by a nonzero divisor succeeds", format!("u=[5] v={}+x^{}", qs(&v), lv), "failed".into(), "Ok".into()); continue; } };
        for (what, zero) in [("the quotient of a short-by-long division", zero_q), ("the empty polynomial", Polynomial::<Q>::empty()), ("p * empty", &Polynomial::new(v.clone()) * &Polynomial::<Q>::empty())] { case();
            match quiet(|| zero.polydiv(&Polynomial::new(w.clone()))) {
                Ok(Ok((q, r))) => if !coeffs_of(&q).iter().all(|c| c.is_zero()) || !coeffs_of(&r).iter().all(|c| c.is_zero()) { report(out, "C12 zero divided by a nonzero divisor is zero remainder zero", format!("dividend: {}, divisor {}", what, qs(&w)), format!("q={} r={}", qs(&coeffs_of(&q)), qs(&coeffs_of(&r))), "0, 0".into()); },
                Ok(Err(e)) => report(out, "C12 division by a nonzero divisor succeeds (also for a zero dividend produced by the library)", format!("dividend: {}, divisor {}", what, qs(&w)), e.to_string(), "Ok((0, 0))".into()),
                Err(e) => report(out, "C12 polydiv never panics", format!("dividend: {}, divisor {}", what, qs(&w)), e, "Ok".into()) }
        }
    }
    for z in [vec![], vec![Q::int(0)], vec![Q::int(0), Q::int(0), Q::int(0)]] { case();
        let (u, v) = (Polynomial::new(z.clone()), Polynomial::new(z.clone()));
        if !matches!(quiet(|| u.polydiv(&v)), Ok(Err(_))) { report(out, "C12 division by the zero polynomial is an error (also when the dividend is the same zero polynomial)", format!("u = v = {}", qs(&z)), "not Err".into(), "Err".into()); }
        if !matches!(quiet(|| u.polydiv(&u)), Ok(Err(_))) { report(out, "C12 division by the zero polynomial is an error (also when the dividend is the same zero polynomial)", format!("u.polydiv(&u), u = {}", qs(&z)), "not Err".into(), "Err".into()); } }
    for it in 0..40 { case();   // a nonzero polynomial divided by itself (the same object, and an equal one): quotient 1, remainder 0
        let lu = 1 + rng.below(6) as usize; let mut u = pq(rng, lu); if u[lu - 1].is_zero() { u[lu - 1] = Q::int(3); }
        let pu = Polynomial::new(u.clone());
        let r = if it % 2 == 0 { quiet(|| pu.polydiv(&pu)) } else { quiet(|| pu.polydiv(&Polynomial::new(u.clone()))) };
        match r { Ok(Ok((q, r))) => if coeffs_of(&q) != vec![Q::int(1)] || !coeffs_of(&r).iter().all(|c| c.is_zero()) { report(out, "C12 p / p == 1 remainder 0", format!("p={}", qs(&u)), format!("q={} r={}", qs(&coeffs_of(&q)), qs(&coeffs_of(&r))), "1, 0".into()); },
            _ => report(out, "C12 division by a nonzero divisor succeeds", format!("p / p, p={}", qs(&u)), "failed".into(), "Ok".into()) } }
    if !matches!(quiet(|| Polynomial::new(vec![Q::int(1)]).polydiv(&Polynomial::new(vec![Q::int(0), Q::int(0)]))), Ok(Err(_))) { report(out, "C12 division by the zero polynomial is an error", "v=[0,0]".into(), "not Err".into(), "Err".into()); }
}

// ---------------------------------------------------------------- C13 / C14 complex
fn c13(rng: &mut Rng, out: &mut Out) {
    let cq = |rng: &mut Rng| Complex::new(if rng.below(4) == 0 { Q::int(0) } else { rng.q() }, if rng.below(4) == 0 { Q::int(0) } else { rng.q() });
    for _ in 0..500 { case();
        let (z, w) = (cq(rng), cq(rng)); let ctx = format!("z=({:?},{:?}) w=({:?},{:?})", z.real, z.imag, w.real, w.imag);
        let same = |a: &Complex<Q>, b: &Complex<Q>| a.real == b.real && a.imag == b.imag;
        let m = z.clone() * w.clone(); let me = Complex::new(z.real * w.real - z.imag * w.imag, z.real * w.imag + z.imag * w.real);
        if !same(&m, &me) { report(out, "C13 complex product is the field product", ctx.clone(), format!("{:?}", m), format!("{:?}", me)); }
        let mut ma = z.clone(); ma *= w.clone(); if !same(&ma, &m) { report(out, "C13 *= equals *", ctx.clone(), format!("{:?}", ma), format!("{:?}", m)); }
        if !(w.real.is_zero() && w.imag.is_zero()) {
            let d = z.clone() / w.clone(); if !same(&(d.clone() * w.clone()), &z) { report(out, "C13 (z / w) * w == z", ctx.clone(), format!("{:?}", d), "field quotient".into()); }
            let mut da = z.clone(); da /= w.clone(); if !same(&da, &d) { report(out, "C13 /= equals /", ctx.clone(), format!("{:?}", da), format!("{:?}", d)); }
        }
        { let mut t = z.clone(); t *= z.clone(); let sq = Complex::new(z.real * z.real - z.imag * z.imag, z.real * z.imag + z.imag * z.real);
          if !same(&t, &sq) || !same(&(z.clone() * z.clone()), &sq) { report(out, "C13 z *= z and z * z are the square of z (coinciding operands)", ctx.clone(), format!("{:?}", t), format!("{:?}", sq)); }
          let mut u = z.clone(); u += z.clone(); let mut v2 = z.clone(); v2 -= z.clone();
          if !same(&u, &Complex::new(z.real + z.real, z.imag + z.imag)) || !v2.real.is_zero() || !v2.imag.is_zero() { report(out, "C13 z += z doubles and z -= z gives zero (coinciding operands)", ctx.clone(), format!("{:?} / {:?}", u, v2), "2z / 0".into()); }
          if !(z.real.is_zero() && z.imag.is_zero()) { let mut q = z.clone(); q /= z.clone(); if !same(&q, &Complex::new(Q::int(1), Q::int(0))) { report(out, "C13 z /= z gives one (coinciding operands)", ctx.clone(), format!("{:?}", q), "1".into()); } } }
        let mut a = z.clone(); a += w.clone(); if !same(&a, &(z.clone() + w.clone())) { report(out, "C13 += equals +", ctx.clone(), format!("{:?}", a), "sum".into()); }
        let mut s = z.clone(); s -= w.clone(); if !same(&s, &(z.clone() - w.clone())) { report(out, "C13 -= equals -", ctx.clone(), format!("{:?}", s), "difference".into()); }
        let (lt, eq, gt) = (z < w, z == w, z > w);
        if (lt as u8 + eq as u8 + gt as u8) != 1 || (z != w) == eq { report(out, "C13 exactly one of <, ==, > and != is the negation of ==", ctx.clone(), format!("lt={} eq={} gt={} ne={}", lt, eq, gt, z != w), "consistent".into()); }
        let k = rng.q_nz(); let sc = z.clone() * k; if !same(&sc, &Complex::new(z.real * k, z.imag * k)) { report(out, "C13 scalar product", ctx.clone(), format!("{:?}", sc), "componentwise".into()); }
        let dv = z.clone() / k; if !same(&dv, &Complex::new(z.real / k, z.imag / k)) { report(out, "C13 scalar quotient", ctx.clone(), format!("{:?}", dv), "componentwise".into()); }
        if (z <= w) != (lt || eq) || (z >= w) != (gt || eq) { report(out, "C13 <= and >= agree with <, == and >", ctx.clone(), format!("le={} ge={} lt={} eq={} gt={}", z <= w, z >= w, lt, eq, gt), "le == lt || eq, ge == gt || eq".into()); }
        let v = cq(rng); if z < w && w < v && !(z < v) { report(out, "C13 the lexicographic order is transitive", format!("{} v=({:?},{:?})", ctx, v.real, v.imag), "z < w, w < v, not z < v".into(), "z < v".into()); }
    }
    // f64 components of magnitude 1e-100 .. 1e100 (also within one operand): product and quotient agree with the operation carried out on
    // operands pre-scaled to order one (no overflow / underflow anywhere) to a few ulps normwise; compound forms are bit-identical
    let sc2 = |x: f64, k: i32| -> f64 { let mut x = x; let mut k = k; while k > 500 { x *= 2.0f64.powi(500); k -= 500; } while k < -500 { x *= 2.0f64.powi(-500); k += 500; } x * 2.0f64.powi(k) };
    let ex = |z: &Cmplx| -> i32 { let m = z.real.abs().max(z.imag.abs()); if m == 0.0 { 0 } else { m.log2().floor() as i32 } };
    for it in 0..400 { case();
        let e0 = rng.int(-330, 330) as i32;
        let comp = |rng: &mut Rng| -> f64 { if rng.below(8) == 0 { return 0.0; } let e = if it % 2 == 0 { e0 + rng.int(-3, 3) as i32 } else { rng.int(-330, 330) as i32 }; (1.0 + rng.unit()) * 2.0f64.powi(e) * if rng.below(2) == 0 { 1.0 } else { -1.0 } };
        let (z, w) = (Cmplx::new(comp(rng), comp(rng)), Cmplx::new(comp(rng), comp(rng)));
        if (z.real == 0.0 && z.imag == 0.0) || (w.real == 0.0 && w.imag == 0.0) { continue; }
        let ctx = format!("z=({:e},{:e}) w=({:e},{:e})", z.real, z.imag, w.real, w.imag);
        { // complex (op) real scalar: the compound form is bit-identical to the binary form (scalars that are not powers of two)
          let r = (3.0 + rng.below(7) as f64) * if rng.below(2) == 0 { 1.0 } else { -1.0 } * [1.0, 0.1, 1.0e-3, 7.0e5][rng.below(4) as usize];
          let bits = |a: Cmplx, b: Cmplx| a.real.to_bits() == b.real.to_bits() && a.imag.to_bits() == b.imag.to_bits();
          let (mut a1, mut a2, mut a3, mut a4) = (z, z, z, z); a1 += r; a2 -= r; a3 *= r; a4 /= r;
          for (nm, c, b) in [("+= r", a1, z + r), ("-= r", a2, z - r), ("*= r", a3, z * r), ("/= r", a4, z / r)] {
              if !bits(c, b) { report(out, "C13 f64: complex (op)= real scalar is bit-identical to complex (op) real scalar", format!("{} r={:e} [{}]", ctx, r, nm), format!("({:e}, {:e})", c.real, c.imag), format!("({:e}, {:e})", b.real, b.imag)); } }
          let q = z / r; if !((q.real - z.real / r).abs() <= 1e-15 * (z.real / r).abs() && (q.imag - z.imag / r).abs() <= 1e-15 * (z.imag / r).abs()) { report(out, "C13 f64: complex / real scalar divides both parts", format!("{} r={:e}", ctx, r), format!("({:e}, {:e})", q.real, q.imag), format!("({:e}, {:e})", z.real / r, z.imag / r)); } }
        let (ez, ew) = (ex(&z), ex(&w));
        let (zs, ws) = (Cmplx::new(sc2(z.real, -ez), sc2(z.imag, -ez)), Cmplx::new(sc2(w.real, -ew), sc2(w.imag, -ew)));
        let den = ws.real * ws.real + ws.imag * ws.imag;
        let (qr, qi) = ((zs.real * ws.real + zs.imag * ws.imag) / den, (zs.imag * ws.real - zs.real * ws.imag) / den);
        let (pr, pi) = (zs.real * ws.real - zs.imag * ws.imag, zs.real * ws.imag + zs.imag * ws.real);
        if (ez - ew).abs() <= 660 {
            let (er, ei) = (sc2(qr, ez - ew), sc2(qi, ez - ew)); let q = z / w; let mag = er.abs().max(ei.abs());
            if !((q.real - er).abs() <= 1e-12 * mag && (q.imag - ei).abs() <= 1e-12 * mag) { report(out, "C13 f64 quotient agrees with the exact quotient to a few ulps (components of magnitude 1e-100..1e100)", ctx.clone(), format!("({:e}, {:e})", q.real, q.imag), format!("({:e}, {:e})", er, ei)); }
            let mut qa = z; qa /= w; if qa.real.to_bits() != q.real.to_bits() || qa.imag.to_bits() != q.imag.to_bits() { report(out, "C13 f64 /= is bit-identical to /", ctx.clone(), format!("({:e}, {:e})", qa.real, qa.imag), format!("({:e}, {:e})", q.real, q.imag)); }
        }
        if (ez + ew).abs() <= 660 {
            let (er, ei) = (sc2(pr, ez + ew), sc2(pi, ez + ew)); let m = z * w; let mag = er.abs().max(ei.abs());
            if !((m.real - er).abs() <= 1e-12 * mag && (m.imag - ei).abs() <= 1e-12 * mag) { report(out, "C13 f64 product agrees with the exact product to a few ulps (components of magnitude 1e-100..1e100)", ctx.clone(), format!("({:e}, {:e})", m.real, m.imag), format!("({:e}, {:e})", er, ei)); }
            let mut ma = z; ma *= w; if ma.real.to_bits() != m.real.to_bits() || ma.imag.to_bits() != m.imag.to_bits() { report(out, "C13 f64 *= is bit-identical to *", ctx.clone(), format!("({:e}, {:e})", ma.real, ma.imag), format!("({:e}, {:e})", m.real, m.imag)); }
        }
    }
}
fn cl(a: Cmplx, b: Cmplx) -> bool { (a - b).abs() <= 1e-9 * (1.0 + a.abs() + b.abs()) }
fn c14(_rng: &mut Rng, out: &mut Out) {
    let mut pts = vec![];
    for &re in &[-3.0, -2.0, -0.5, 0.0, 0.5, 2.0, 3.0] { for &im in &[-2.0, -0.5, -1.0e-7, 0.0, 1.0e-7, 0.5, 2.0] { if re != 0.0 || im != 0.0 { pts.push(Cmplx::new(re, im)); } } }
    let one = Cmplx::new(1.0, 0.0);
    for &z in &pts { case();
        let ctx = format!("z=({}, {})", z.real, z.imag);
        { // the modulus through every view: the inherent abs, the Signed trait method (what generic code and the pivot searches call), polar form
          let m = (z.real * z.real + z.imag * z.imag).sqrt();
          let t = <Cmplx as Signed>::abs(&z);
          if !((z.abs() - m).abs() <= 1e-14 * m) || !((t.real - m).abs() <= 1e-14 * m && t.imag == 0.0) { report(out, "C14 |z| through the inherent method and through the Signed trait method is the modulus (as x + 0i)", ctx.clone(), format!("abs()={} Signed::abs=({}, {})", z.abs(), t.real, t.imag), format!("{}", m)); }
          if (z - one).abs() > 1e-3 { let l = z.log(z); if !cl(l, one) { report(out, "C14 the logarithm of a number in its own base is one", ctx.clone(), format!("({}, {})", l.real, l.imag), "(1, 0)".into()); } }
          if z.imag == 0.0 { let x = z.real; let a = z.acosh();      // principal branch on the real axis: Im acosh in [0, pi]
              let e = if x >= 1.0 { Cmplx::new((x + (x * x - 1.0).sqrt()).ln(), 0.0) } else if x <= -1.0 { Cmplx::new((-x + (x * x - 1.0).sqrt()).ln(), std::f64::consts::PI) } else { Cmplx::new(0.0, x.acos()) };
              if !((a.real - e.real).abs() <= 1e-9 && (a.imag - e.imag).abs() <= 1e-9) { report(out, "C14 acosh on the real axis takes the principal value (imaginary part in [0, pi])", ctx.clone(), format!("({}, {})", a.real, a.imag), format!("({}, {})", e.real, e.imag)); } }
          let back = Cmplx::polar(z.abs(), z.arg());
          if !cl(back, z) { report(out, "C14 polar(|z|, arg z) == z in every quadrant and on every axis", ctx.clone(), format!("({}, {})", back.real, back.imag), format!("({}, {})", z.real, z.imag)); } }
        { let inv = one / z;
          let pairs: Vec<(&'static str, Cmplx, Cmplx)> = vec![
              ("C14 cot z == 1 / tan z", z.cot(), one / z.tan()), ("C14 sec z == 1 / cos z", z.sec(), one / z.cos()), ("C14 csc z == 1 / sin z", z.csc(), one / z.sin()),
              ("C14 coth z == 1 / tanh z", z.coth(), one / z.tanh()), ("C14 sech z == 1 / cosh z", z.sech(), one / z.cosh()), ("C14 csch z == 1 / sinh z", z.csch(), one / z.sinh()),
              ("C14 tan z == sin z / cos z", z.tan(), z.sin() / z.cos()), ("C14 tanh z == sinh z / cosh z", z.tanh(), z.sinh() / z.cosh()),
              ("C14 acot z == atan(1/z) (the library's convention, odd, in every quadrant)", z.acot(), inv.atan()), ("C14 asec z == acos(1/z)", z.asec(), inv.acos()), ("C14 acsc z == asin(1/z)", z.acsc(), inv.asin()),
              ("C14 acoth z == atanh(1/z)", z.acoth(), inv.atanh()), ("C14 asech z == acosh(1/z)", z.asech(), inv.acosh()), ("C14 acsch z == asinh(1/z)", z.acsch(), inv.asinh()),
              ("C14 tan(atan z) == z", z.atan().tan(), z), ("C14 tanh(atanh z) == z", z.atanh().tanh(), z), ("C14 sinh(asinh z) == z", z.asinh().sinh(), z)];
          for (name, got, exp) in pairs { if got.real.is_finite() && got.imag.is_finite() && exp.real.is_finite() && exp.imag.is_finite() && (z - one).abs() > 1e-3 && (z + one).abs() > 1e-3 && (z - Cmplx::new(0.0, 1.0)).abs() > 1e-3 && (z + Cmplx::new(0.0, 1.0)).abs() > 1e-3 {
              if !((got - exp).abs() <= 1e-7 * (1.0 + got.abs() + exp.abs())) { report(out, name, ctx.clone(), format!("({}, {})", got.real, got.imag), format!("({}, {})", exp.real, exp.imag)); } } }
          // whole-number real exponents of either sign, and fractional ones: z^x == exp(x ln z), returned at once
          for xp in [-3.0, -2.0, -1.0, 0.0, 1.0, 2.0, 3.0, -1.5, 0.5, 2.5] { let got = z.powf(xp); let exp = (z.ln() * xp).exp();
              if !((got - exp).abs() <= 1e-9 * (1.0 + got.abs() + exp.abs())) { report(out, "C14 z.powf(x) == exp(x ln z) for every real exponent |x| <= 3", format!("{} x={}", ctx, xp), format!("({}, {})", got.real, got.imag), format!("({}, {})", exp.real, exp.imag)); } } }
        let chk = |out: &mut Out, name: &'static str, got: Cmplx, exp: Cmplx| if !cl(got, exp) { report(out, name, ctx.clone(), format!("({}, {})", got.real, got.imag), format!("({}, {})", exp.real, exp.imag)); };
        chk(out, "C14 sqrt(z)^2 == z", z.sqrt() * z.sqrt(), z);
        if z.sqrt().real < -1e-12 { report(out, "C14 Re sqrt z >= 0", ctx.clone(), format!("{}", z.sqrt().real), ">= 0".into()); }
        chk(out, "C14 exp(ln z) == z", z.ln().exp(), z);
        if !(z.ln().imag > -std::f64::consts::PI - 1e-12 && z.ln().imag <= std::f64::consts::PI + 1e-12) { report(out, "C14 Im ln z in (-pi, pi]", ctx.clone(), format!("{}", z.ln().imag), "(-pi, pi]".into()); }
        chk(out, "C14 sin(asin z) == z", z.asin().sin(), z);
        chk(out, "C14 cos(acos z) == z", z.acos().cos(), z);
        chk(out, "C14 sinh(asinh z) == z", z.asinh().sinh(), z);
        chk(out, "C14 cosh(acosh z) == z", z.acosh().cosh(), z);
        if z.acosh().real < -1e-9 { report(out, "C14 acosh returns the principal branch (Re >= 0)", ctx.clone(), format!("{}", z.acosh().real), ">= 0".into()); }
        if (z.asin().real).abs() > std::f64::consts::FRAC_PI_2 + 1e-9 { report(out, "C14 Re asin z in [-pi/2, pi/2]", ctx.clone(), format!("{}", z.asin().real), "[-pi/2, pi/2]".into()); }
        if z.acos().real < -1e-9 || z.acos().real > std::f64::consts::PI + 1e-9 { report(out, "C14 Re acos z in [0, pi]", ctx.clone(), format!("{}", z.acos().real), "[0, pi]".into()); }
        chk(out, "C14 tan == sin/cos", z.tan(), z.sin() / z.cos());
        chk(out, "C14 sec*cos == 1", z.sec() * z.cos(), one);
        chk(out, "C14 csc*sin == 1", z.csc() * z.sin(), one);
        chk(out, "C14 sech*cosh == 1", z.sech() * z.cosh(), one);
        chk(out, "C14 polar(|z|, arg z) == z", Cmplx::polar(z.abs(), z.arg()), z);
        for &x in &[-3.0, -2.0, -1.0, -0.5, 0.5, 1.0, 2.0, 2.5] { case();
            let e = (z.ln() * x).exp();
            if !cl(z.powf(x), e) { report(out, "C14 z^x == exp(x ln z)", format!("{} x={}", ctx, x), format!("({}, {})", z.powf(x).real, z.powf(x).imag), format!("({}, {})", e.real, e.imag)); }
            if !cl(z.pow(&Cmplx::new(x, 0.5)), (z.ln() * Cmplx::new(x, 0.5)).exp()) { report(out, "C14 z^w == exp(w ln z)", format!("{} w=({}, 0.5)", ctx, x), "differs".into(), "exp(w ln z)".into()); }
        }
        // log to several bases in a row (pure function of its two arguments: no call may depend on an earlier one)
        for &(br, bi) in &[(2.0, 0.0), (0.0, 2.0), (2.0, 1.0), (1.0, 2.0), (3.0, 3.0), (0.5, 0.5), (2.0, 0.0)] { case();
            let b = Cmplx::new(br, bi);
            let e = z.ln() / b.ln();
            let g = z.log(b);
            if !cl(g, e) { report(out, "C14 log_b(z) == ln z / ln b for every base, whatever was computed before", format!("{} base=({}, {})", ctx, br, bi), format!("({}, {})", g.real, g.imag), format!("({}, {})", e.real, e.imag)); }
        }
        if z.imag == 0.0 { chk(out, "C14 sin reduces to the real sine on the real axis", z.sin(), Cmplx::new(z.real.sin(), 0.0)); chk(out, "C14 exp reduces to the real exp", z.exp(), Cmplx::new(z.real.exp(), 0.0)); }
    }
}

// ---------------------------------------------------------------- C15 / C16 vectors
fn c15(rng: &mut Rng, out: &mut Out) {
    for _ in 0..300 { case();
        let n = 1 + rng.below(up(8, 64) as u64) as usize;
        let a: Vec<f64> = (0..n).map(|_| rng.f()).collect(); let b: Vec<f64> = (0..n).map(|_| rng.f()).collect();
        let (va, vb) = (Vector::create(a.clone()), Vector::create(b.clone()));
        let ctx = format!("u={:?} v={:?}", a, b);
        let inf = a.iter().fold(0.0f64, |s, x| s.max(x.abs()));
        if va.norm_inf() != inf { report(out, "C15 norm_inf is the largest absolute value", ctx.clone(), format!("{}", va.norm_inf()), format!("{}", inf)); }
        let n1: f64 = a.iter().map(|x| x.abs()).sum(); if va.norm_1() != n1 { report(out, "C15 norm_1", ctx.clone(), format!("{}", va.norm_1()), format!("{}", n1)); }
        let n2 = a.iter().map(|x| x * x).sum::<f64>().sqrt(); if (va.norm_2() - n2).abs() > 1e-12 * (1.0 + n2) { report(out, "C15 norm_2", ctx.clone(), format!("{}", va.norm_2()), format!("{}", n2)); }
        if !(va.norm_inf() <= va.norm_2() + 1e-12 && va.norm_2() <= va.norm_1() + 1e-12) || va.norm_inf() < 0.0 { report(out, "C15 0 <= inf-norm <= 2-norm <= 1-norm", ctx.clone(), format!("{} {} {}", va.norm_inf(), va.norm_2(), va.norm_1()), "ordered".into()); }
        if (-va.clone()).norm_inf() != va.norm_inf() { report(out, "C15 ||-u|| == ||u||", ctx.clone(), format!("{}", (-va.clone()).norm_inf()), format!("{}", va.norm_inf())); }
        let d: f64 = a.iter().zip(&b).map(|(x, y)| x * y).sum(); if va.dot(&vb) != d { report(out, "C15 dot", ctx.clone(), format!("{}", va.dot(&vb)), format!("{}", d)); }
        { let dd: f64 = a.iter().map(|x| x * x).sum(); let (g1, g2) = (va.dot(&va), va.dot_f64(&va));
          if g1 != dd || g2.to_bits() != g1.to_bits() { report(out, "C15 the dot product of a vector with itself (same object on both sides, sequential and threaded) is the sum of squares", ctx.clone(), format!("dot={} dot_f64={}", g1, g2), format!("{}", dd)); } }
        let s = &va + &vb; if (0..n).any(|i| s[i] != a[i] + b[i]) { report(out, "C15 elementwise +", ctx.clone(), format!("{:?}", s), "sum".into()); }
        // range sums / products over all index ranges (exact integer data), including one-index ranges and length-1 vectors
        {
            let iw: Vec<i64> = (0..n).map(|_| rng.int(-3, 3)).collect();
            let vw = Vector::create(iw.clone());
            for st in 0..n { for en in st..n { case();
                let es: i64 = iw[st..=en].iter().sum(); let ep: i64 = iw[st..=en].iter().product();
                match quiet(|| vw.sum_slice(st, en)) { Ok(g) => if g != es { report(out, "C15 sum_slice(start, end) is the inclusive range sum", format!("v={:?} start={} end={}", iw, st, en), format!("{}", g), format!("{}", es)); },
                    Err(e) => report(out, "C15 sum_slice panicked on a valid range", format!("v={:?} start={} end={}", iw, st, en), e, format!("{}", es)) }
                match quiet(|| vw.product_slice(st, en)) { Ok(g) => if g != ep { report(out, "C15 product_slice(start, end) is the inclusive range product", format!("v={:?} start={} end={}", iw, st, en), format!("{}", g), format!("{}", ep)); },
                    Err(e) => report(out, "C15 product_slice panicked on a valid range", format!("v={:?} start={} end={}", iw, st, en), e, format!("{}", ep)) }
            } }
            match quiet(|| vw.sum()) { Ok(g) => if g != iw.iter().sum::<i64>() { report(out, "C15 sum of all elements", format!("v={:?}", iw), format!("{}", g), format!("{}", iw.iter().sum::<i64>())); },
                Err(e) => report(out, "C15 sum panicked", format!("v={:?}", iw), e, "a value".into()) }
            if quiet(|| vw.sum_slice(n, n)).is_ok() || (n > 1 && quiet(|| vw.sum_slice(1, 0)).is_ok()) { report(out, "C15 sum_slice rejects an out-of-range or reversed range", format!("v={:?}", iw), "returned".into(), "panic".into()); }
        }
        // p-norms with non-integer p on data with negative entries
        { let pn = 1.0 + rng.below(13) as f64 * 0.5; let e = a.iter().map(|x| x.abs().powf(pn)).sum::<f64>().powf(1.0 / pn);
          if !((va.norm_p(pn) - e).abs() <= 1e-10 * (1.0 + e)) { report(out, "C15 norm_p is (sum |x_i|^p)^(1/p)", format!("u={:?} p={}", a, pn), format!("{}", va.norm_p(pn)), format!("{}", e)); } }
        // find: first match, else last index
        let iv: Vec<i64> = (0..n).map(|_| rng.int(0, 3)).collect(); let key = rng.int(0, 4);
        let exp = iv.iter().position(|x| *x == key).unwrap_or(n - 1);
        let got = Vector::create(iv.clone()).find(key); if got != exp { report(out, "C15 find returns the first match, else the last index", format!("v={:?} value={}", iv, key), format!("{}", got), format!("{}", exp)); }
        // edits against a list model
        let mut m = iv.clone(); let mut v = Vector::create(iv.clone()); let mut h = vec![];
        for _ in 0..8 { case(); match rng.below(9) {
            0 => { let x = rng.int(0, 9); m.push(x); v.push(x); h.push(format!("push({})", x)); }
            1 => { let x = rng.int(0, 9); m.insert(0, x); v.push_front(x); h.push(format!("push_front({})", x)); }
            2 => { let p = rng.below(m.len() as u64 + 1) as usize; let x = rng.int(0, 9); m.insert(p, x); v.insert(p, x); h.push(format!("insert({},{})", p, x)); }
            3 => if m.len() > 1 { let e = m.pop().unwrap(); let g = v.pop(); if g != e { report(out, "C15 pop returns the last element", format!("{:?}", h), format!("{}", g), format!("{}", e)); } h.push("pop".into()); },
            4 => if !m.is_empty() { let (i, j) = (rng.below(m.len() as u64) as usize, rng.below(m.len() as u64) as usize); m.swap(i, j); v.swap(i, j); h.push(format!("swap({},{})", i, j)); },
            5 => { m.sort(); v.sort(); h.push("sort".into()); }
            6 => { let k = rng.below(m.len() as u64 + 4) as usize; m.resize(k, 0); v.resize(k); h.push(format!("resize({})", k)); }
            7 => { let x = rng.int(0, 9); for e in m.iter_mut() { *e = x; } v.assign(x); h.push(format!("assign({})", x)); }
            _ => if rng.below(3) == 0 { m.clear(); v.clear(); h.push("clear".into()); } }
            if v.size() != m.len() || (0..m.len()).any(|i| v[i] != m[i]) { report(out, "C15 vector equals the list model after a sequence of edits", format!("start {:?}; {}", iv, h.join("; ")), format!("{:?}", v), format!("{:?}", m)); break; } }
    }
    // resize of a vector that has never allocated (capacity 0), by every constructor of the empty vector
    for target in [1usize, 2, 5, 33] { case();
        let makers: Vec<(&'static str, Box<dyn Fn() -> Vector<i64>>)> = vec![("empty()", Box::new(|| Vector::<i64>::empty())), ("new(0, 7)", Box::new(|| Vector::<i64>::new(0, 7))), ("create(vec![])", Box::new(|| Vector::<i64>::create(vec![])))];
        for (name, mk) in makers.iter() { let mut v = mk(); v.resize(target);
            if v.size() != target || (0..target).any(|i| v[i] != 0) { report(out, "C15 resize of an empty vector gives that many default elements", format!("{}.resize({})", name, target), format!("size {}", v.size()), format!("{} zeros", target)); } }
    }
    // generated sequences in both directions: start exactly at a, end at b to rounding, strictly monotone towards b, evenly spaced
    for (a, b) in [(1.0f64, 3.0f64), (1.0, 0.0), (0.0, -2.5), (5.0, -5.0), (-1.0, -0.25), (2.0, 1.0e3), (1.0e3, 2.0)] { for n in [2usize, 3, 5, 11, 64] { case();
        match quiet(|| Vector::<f64>::linspace(a, b, n)) {
            Ok(l) => { let sc = a.abs().max(b.abs());
                let bad = l.size() != n || l[0] != a || (l[n - 1] - b).abs() > 1e-12 * sc || (0..n - 1).any(|i| if b > a { l[i] >= l[i + 1] } else { l[i] <= l[i + 1] })
                    || (0..n).any(|i| (l[i] - (a + (b - a) * i as f64 / (n - 1) as f64)).abs() > 1e-12 * sc);
                if bad { report(out, "C15 linspace(a, b, n) starts exactly at a, ends at b, is monotone and evenly spaced (ascending and descending)", format!("linspace({}, {}, {})", a, b, n), format!("{:?}", (0..l.size()).map(|i| l[i]).collect::<Vec<_>>()), "a, a+h, ..., b".into()); } }
            Err(e) => report(out, "C15 linspace panicked for n >= 2", format!("linspace({}, {}, {})", a, b, n), e, "a sequence".into()) }
    } }
    // every form of + and - (borrowed, consuming, mixed, compound) agrees on equal sizes and refuses operands of different sizes - both ways round
    for la in 0..5usize { for lb in 0..5usize { case();
        let (ua, ub): (Vec<Q>, Vec<Q>) = ((0..la).map(|_| rng.q()).collect(), (0..lb).map(|_| rng.q()).collect());
        let (va, vb) = (Vector::create(ua.clone()), Vector::create(ub.clone()));
        let forms: Vec<(&str, Box<dyn Fn() -> Vector<Q>>)> = vec![
            ("&u + &v", Box::new(|| &va + &vb)), ("u + &v", Box::new(|| va.clone() + &vb)), ("u + v", Box::new(|| va.clone() + vb.clone())), ("u += v", Box::new(|| { let mut t = va.clone(); t += vb.clone(); t })),
            ("&u - &v", Box::new(|| &va - &vb)), ("u - &v", Box::new(|| va.clone() - &vb)), ("u - v", Box::new(|| va.clone() - vb.clone())), ("u -= v", Box::new(|| { let mut t = va.clone(); t -= vb.clone(); t }))];
        for (k, (name, f)) in forms.iter().enumerate() {
            let r = quiet(|| f());
            if la != lb { if r.is_ok() { report(out, "C15 vector + / - in every form refuses operands of different sizes", format!("{} with sizes {} and {}", name, la, lb), "returned a value".into(), "panic".into()); } }
            else { let e: Vec<Q> = (0..la).map(|i| if k < 4 { ua[i] + ub[i] } else { ua[i] - ub[i] }).collect();
                match r { Ok(v) => if vq(&v) != e { report(out, "C15 vector + / - in every form is elementwise", format!("{} u={} v={}", name, qs(&ua), qs(&ub)), qs(&vq(&v)), qs(&e)); },
                          Err(er) => report(out, "C15 vector + / - panicked on equal sizes", format!("{} u={} v={}", name, qs(&ua), qs(&ub)), er, qs(&e)) } }
        }
    } }
    let l = Vector::<f64>::linspace(1.0, 3.0, 5); if l[0] != 1.0 || (l[4] - 3.0).abs() > 1e-12 || (0..4).any(|i| l[i] >= l[i + 1]) { report(out, "C15 linspace starts at a, ends at b, monotone", "linspace(1,3,5)".into(), format!("{:?}", l), "[1, 1.5, 2, 2.5, 3]".into()); }
}
fn c16_sizes(out: &mut Out) {
    for a in 0..8usize { for b in 0..8usize { if a == b { continue; } case();
        let (va, vb) = (Vec64::create(vec![1.0; a]), Vec64::create(vec![2.0; b]));
        if quiet(|| va.dot_f64(&vb)).is_ok() { report(out, "C16 dot_f64 rejects operands of different lengths (as dot does)", format!("lengths {} and {}", a, b), "returned a value".into(), "panic".into()); }
    } }
}
fn c16(_rng: &mut Rng, out: &mut Out) {
    c16_sizes(out);
    // scheduling independence: data whose partial sums are NOT exact (large head, cancelling tail, fractional parts), many repeated calls
    for n in [64usize, 1000, 4096, 4099] { case();
        let a: Vec<f64> = (0..n).map(|i| (if i < n / 2 { 1.0e8 } else { -1.0e8 }) + ((i * 7919) % 1009) as f64 * 1.37e-3).collect();
        let b: Vec<f64> = (0..n).map(|i| 1.0 + ((i * 104729) % 997) as f64 * 7.3e-4).collect();
        let (va, vb) = (Vector::create(a), Vector::create(b));
        match quiet(|| { let first = va.dot_f64(&vb); let mut distinct = 0usize; for _ in 0..300 { if va.dot_f64(&vb).to_bits() != first.to_bits() { distinct += 1; } } (first, distinct) }) {
            Ok((first, distinct)) => { let s = va.dot(&vb);
                if distinct != 0 { report(out, "C16 repeated calls on the same data are bit-identical (the result does not depend on thread scheduling)", format!("len={} workers={} (inexact partial sums, 301 calls)", n, std::thread::available_parallelism().map(|x| x.get()).unwrap_or(0)), format!("{} of 300 repeats differ from the first result {:e}", distinct, first), "0 differ".into()); }
                let mag: f64 = (0..n).map(|i| (va[i] * vb[i]).abs()).sum();
                if !((first - s).abs() <= 1e-12 * mag) { report(out, "C16 threaded dot == sequential dot up to reassociation", format!("len={} (inexact partial sums)", n), format!("{:e}", first), format!("{:e}", s)); } }
            Err(e) => report(out, "C16 threaded dot panicked", format!("len={} (inexact partial sums)", n), e, "a value".into()),
        }
    }
    // increasing lengths, then short and empty vectors again AFTER long ones (per-thread scratch must not leak between calls)
    for n in (0..=200usize).chain([1000, 4099, 0, 1, 2, 3, 5, 7, 15, 16, 17, 0, 31, 4099, 0]) { case();
        let a: Vec<f64> = (0..n).map(|i| ((i * 7 + 3) % 11) as f64 - 5.0).collect(); let b: Vec<f64> = (0..n).map(|i| ((i * 5 + 1) % 13) as f64 - 6.0).collect();
        let (va, vb) = (Vector::create(a), Vector::create(b));
        if let Ok((ps, ss)) = quiet(|| (va.dot_f64(&va), va.dot(&va))) { if ps.to_bits() != ss.to_bits() { report(out, "C16 threaded dot of a vector with itself == sequential dot (exact integer data)", format!("len={}", n), format!("{}", ps), format!("{}", ss)); } }
        match quiet(|| (va.dot_f64(&vb), va.dot_f64(&vb))) {
            Ok((p, p2)) => { let s = va.dot(&vb);
                if p.to_bits() != s.to_bits() || p.to_bits() != p2.to_bits() { report(out, "C16 threaded dot == sequential dot (exact integer data), repeatable", format!("len={} workers={}", n, std::thread::available_parallelism().map(|x| x.get()).unwrap_or(0)), format!("{} / {}", p, p2), format!("{}", s)); } }
            Err(e) => report(out, "C16 threaded dot panicked", format!("len={}", n), e, "a value".into()),
        }
    }
}

// ---------------------------------------------------------------- C17 / C18 newton, jacobian
fn c17(_rng: &mut Rng, out: &mut Out) {
    use std::cell::Cell;
    // scalar: success means a root; bounded work; failure carries the last iterate; NaN is never success
    for (k, (f, g0, root)) in [(&(|x: f64| x * x - 4.0) as &dyn Fn(f64) -> f64, 1.0, Some(2.0)), (&|x: f64| x * x + 1.0, 0.0, None), (&|x: f64| x.ln(), 3.0, Some(1.0)), (&|x: f64| x.sqrt() - 1.0, 0.0, Some(1.0)), (&|x: f64| x.exp() - 2.0, 0.0, Some(2.0f64.ln()))].into_iter().enumerate() { case();
        for maxit in [0usize, 1, 5, 30] { case();
            let calls = Cell::new(0usize);
            let mut nw = Newton::<f64>::new(g0); nw.iterations(maxit);
            let wrapped = |x: f64| { calls.set(calls.get() + 1); f(x) };
            let r = nw.solve(&wrapped);
            let ctx = format!("function #{} guess={} max_iter={}", k, g0, maxit);
            if calls.get() > 3 * maxit { report(out, "C17 bounded number of function evaluations", ctx.clone(), format!("{}", calls.get()), format!("<= {}", 3 * maxit)); }
            match r { Ok(x) => { if !x.is_finite() || root.map(|rt| (x - rt).abs() > 1e-5).unwrap_or(true) { report(out, "C17 scalar success means a root", ctx.clone(), format!("Ok({})", x), format!("{:?}", root)); } }
                      Err(x) => if maxit == 0 && x != g0 { report(out, "C17 zero budget fails with the guess", ctx.clone(), format!("Err({})", x), format!("Err({})", g0)); } }
            if nw.parameters().2 != maxit || nw.parameters().3 != g0 { report(out, "C17 configuration untouched", ctx, "changed".into(), "unchanged".into()); }
        }
    }
    // the iteration is invariant under a rescaling of f: tiny- and huge-valued functions converge to the same roots
    for (k, (f, g0, root)) in [(&(|x: f64| 1.0e-9 * (x * x - 4.0)) as &dyn Fn(f64) -> f64, 1.0, 2.0), (&|x: f64| 1.0e-10 * (x.exp() - 3.0), 1.0, 3.0f64.ln()), (&|x: f64| 1.0e12 * (x * x * x - 8.0), 3.0, 2.0), (&|x: f64| 1.0e-14 * (x - 0.5), 0.0, 0.5)].into_iter().enumerate() { case();
        let nw = Newton::<f64>::new(g0);
        match nw.solve(f) { Ok(x) => if !((x - root).abs() <= 1e-5) { report(out, "C17 scalar success means a root (functions of very small / very large scale)", format!("scaled function #{} guess={}", k, g0), format!("Ok({})", x), format!("Ok({})", root)); },
            Err(x) => report(out, "C17 a start inside the basin of quadratic convergence succeeds whatever the scale of f", format!("scaled function #{} guess={}", k, g0), format!("Err({})", x), format!("Ok({})", root)) }
    }
    // complex scalar solver, default and non-default finite-difference steps
    for dl in [None, Some(1.0e-6), Some(1.0e-9), Some(1.0e-4)] { case();
        let mut nw = Newton::<Cmplx>::new(Cmplx::new(1.0, 0.0)); if let Some(d) = dl { nw.delta(d); }
        let f = |z: Cmplx| z * z * z - Cmplx::new(2.0, 0.0);
        match nw.solve(&f) { Ok(z) => if !((z - Cmplx::new(2.0f64.cbrt(), 0.0)).abs() <= 1e-5) { report(out, "C17 complex scalar success means a root (every step size)", format!("z^3 - 2 from 1+0i, delta={:?}", dl), format!("Ok(({}, {}))", z.real, z.imag), format!("{}", 2.0f64.cbrt())); },
            Err(z) => report(out, "C17 complex scalar solve converges from inside the basin (every step size)", format!("z^3 - 2 from 1+0i, delta={:?}", dl), format!("Err(({}, {}))", z.real, z.imag), format!("Ok({})", 2.0f64.cbrt())) }
        let mut nw2 = Newton::<Cmplx>::new(Cmplx::new(0.5, 0.5)); if let Some(d) = dl { nw2.delta(d); }
        let g = |z: Cmplx| z * z + Cmplx::new(1.0, 0.0);
        match nw2.solve(&g) { Ok(z) => if !((z - Cmplx::new(0.0, 1.0)).abs() <= 1e-5) { report(out, "C17 complex scalar success means a root (every step size)", format!("z^2 + 1 from 0.5+0.5i, delta={:?}", dl), format!("Ok(({}, {}))", z.real, z.imag), "i".into()); },
            Err(z) => report(out, "C17 complex scalar solve converges from inside the basin (every step size)", format!("z^2 + 1 from 0.5+0.5i, delta={:?}", dl), format!("Err(({}, {}))", z.real, z.imag), "Ok(i)".into()) }
    }
    // a solver configured by setters in any order behaves like one configured directly (same parameters, same result)
    for (dl, tl) in [(1.0e-4, 1.0e-8), (1.0e-10, 1.0e-8), (1.0e-8, 1.0e-4), (1.0e-6, 1.0e-12)] { case();
        let f = |x: f64| x.exp() - 2.0;
        let mut a = Newton::<f64>::new(1.0); a.delta(dl); a.tolerance(tl);
        let mut b = Newton::<f64>::new(7.5); b.delta(dl); b.tolerance(tl); b.guess(1.0);
        let mut c = Newton::<f64>::new(7.5); c.guess(1.0); c.tolerance(tl); c.delta(dl);
        let (ra, rb, rc) = (a.solve(&f), b.solve(&f), c.solve(&f));
        let show = |r: &Result<f64, f64>| match r { Ok(x) => format!("Ok({})", x), Err(x) => format!("Err({})", x) };
        let same = |p: &Result<f64, f64>, q: &Result<f64, f64>| match (p, q) { (Ok(x), Ok(y)) | (Err(x), Err(y)) => x.to_bits() == y.to_bits(), _ => false };
        if !same(&ra, &rb) || !same(&ra, &rc) { report(out, "C17 the order of the configuration calls (tolerance, delta, guess) does not matter", format!("exp(x) - 2, guess 1, delta={:e} tol={:e}", dl, tl), format!("{} / {} / {}", show(&ra), show(&rb), show(&rc)), "identical results".into()); }
        let g = |z: Cmplx| z * z * z - Cmplx::new(2.0, 0.0);
        let mut ac = Newton::<Cmplx>::new(Cmplx::new(1.0, 0.0)); ac.delta(dl); ac.tolerance(tl);
        let mut bc = Newton::<Cmplx>::new(Cmplx::new(-3.0, 2.0)); bc.delta(dl); bc.tolerance(tl); bc.guess(Cmplx::new(1.0, 0.0));
        let (qa, qb) = (ac.solve(&g), bc.solve(&g));
        let samec = match (&qa, &qb) { (Ok(x), Ok(y)) | (Err(x), Err(y)) => x.real.to_bits() == y.real.to_bits() && x.imag.to_bits() == y.imag.to_bits(), _ => false };
        if !samec { report(out, "C17 the order of the configuration calls (tolerance, delta, guess) does not matter (complex scalar solver)", format!("z^3 - 2, guess 1+0i, delta={:e} tol={:e}", dl, tl), format!("{} / {}", if qa.is_ok() { "Ok" } else { "Err" }, if qb.is_ok() { "Ok" } else { "Err" }), "identical results".into()); }
    }
    // a converged result, or a point very close to the root, used as the guess of the next call: success again
    { let f2 = |x: Vec64| Vec64::create(vec![x[0] * x[0] - 2.0, x[1] * x[1] - 3.0 + 0.0 * x[0]]);
      let j2 = |x: Vec64| { let mut m = Mat64::new(2, 2, 0.0); m[(0, 0)] = 2.0 * x[0]; m[(1, 1)] = 2.0 * x[1]; m };
      let root = [2.0f64.sqrt(), 3.0f64.sqrt()];
      for tl in [1.0e-8, 1.0e-12] { for which in 0..2 { case();
          let mut nw = Newton::<Vec64>::new(Vec64::create(vec![1.0, 1.0])); nw.tolerance(tl);
          let first = if which == 0 { nw.solve(&f2) } else { nw.solve_jacobian(&f2, &j2) };
          match first {
              Ok(x) => { if (x[0] - root[0]).abs() > 1e-6 || (x[1] - root[1]).abs() > 1e-6 { report(out, "C17 system success means a root", format!("(x^2-2, y^2-3) tol={:e} {}", tl, if which == 0 { "solve" } else { "solve_jacobian" }), format!("({}, {})", x[0], x[1]), format!("({}, {})", root[0], root[1])); }
                  nw.guess(x.clone());
                  let again = if which == 0 { nw.solve(&f2) } else { nw.solve_jacobian(&f2, &j2) };
                  if again.is_err() { report(out, "C17 a converged result used as the guess of the next call succeeds again", format!("(x^2-2, y^2-3) tol={:e} {}", tl, if which == 0 { "solve" } else { "solve_jacobian" }), "Err".into(), "Ok".into()); } }
              Err(_) => report(out, "C17 system solve converges from inside the basin", format!("(x^2-2, y^2-3) from (1,1) tol={:e}", tl), "Err".into(), "Ok".into()) }
          let mut near = Newton::<Vec64>::new(Vec64::create(vec![root[0] + 1.0e-5, root[1] - 1.0e-5])); near.tolerance(tl);
          let rn = if which == 0 { near.solve(&f2) } else { near.solve_jacobian(&f2, &j2) };
          if rn.is_err() { report(out, "C17 a guess very close to the root converges", format!("(x^2-2, y^2-3) from root + 1e-5, tol={:e} {}", tl, if which == 0 { "solve" } else { "solve_jacobian" }), "Err".into(), "Ok".into()); }
      } } }
    { // a Jacobian whose columns repeat a magnitude above and below the diagonal (pivot search with ties), and the iterate carried by Err
      let f3 = |x: Vec64| Vec64::create(vec![10.0 * x[0] + x[0] * x[0] + 3.0 * x[1] - 14.0, 3.0 * x[1] + x[2] + 0.5 * x[2] * x[2] - 4.5, x[0] + 4.0 * x[2] + x[2] * x[2] * x[2] - 6.0]);
      let j3 = |x: Vec64| { let mut m = Mat64::new(3, 3, 0.0); m[(0, 0)] = 10.0 + 2.0 * x[0]; m[(0, 1)] = 3.0; m[(1, 1)] = 3.0; m[(1, 2)] = 1.0 + x[2]; m[(2, 0)] = 1.0; m[(2, 2)] = 4.0 + 3.0 * x[2] * x[2]; m };
      for which in 0..2 { case();
          let nw = Newton::<Vec64>::new(Vec64::create(vec![1.1, 0.9, 1.1]));
          match if which == 0 { nw.solve(&f3) } else { nw.solve_jacobian(&f3, &j3) } {
              Ok(x) => if (0..3).any(|i| !((x[i] - 1.0).abs() <= 1e-6)) { report(out, "C17 system success means a root", format!("3x3 system with repeated magnitudes in a Jacobian column, {}", if which == 0 { "solve" } else { "solve_jacobian" }), format!("({}, {}, {})", x[0], x[1], x[2]), "(1, 1, 1)".into()); },
              Err(x) => report(out, "C17 system solve converges from inside the basin", format!("3x3 system with repeated magnitudes in a Jacobian column, {}", if which == 0 { "solve" } else { "solve_jacobian" }), format!("Err(({}, {}, {}))", x[0], x[1], x[2]), "Ok((1, 1, 1))".into()) } }
      // failure carries the LAST iterate: k steps at once equal k one-step runs restarted from the carried iterate
      let l3 = |x: Vec64| Vec64::create(vec![2.0 * x[0] + x[1] - 3.0, x[0] + 3.0 * x[1] - 4.0, x[2] - 5.0]);
      let lj = |_x: Vec64| { let mut m = Mat64::new(3, 3, 0.0); m[(0, 0)] = 2.0; m[(0, 1)] = 1.0; m[(1, 0)] = 1.0; m[(1, 1)] = 3.0; m[(2, 2)] = 1.0; m };
      let mut one = Newton::<Vec64>::new(Vec64::create(vec![0.0, 0.0, 0.0])); one.iterations(1);
      match one.solve_jacobian(&l3, &lj) { Err(x) => if (x[0] - 1.0).abs() > 1e-9 || (x[1] - 1.0).abs() > 1e-9 || (x[2] - 5.0).abs() > 1e-9 { report(out, "C17 failure carries the last iterate (one exact Newton step on a linear system lands on its solution)", "solve_jacobian, linear 3x3, max_iter=1".into(), format!("Err(({}, {}, {}))", x[0], x[1], x[2]), "Err((1, 1, 5))".into()); },
          Ok(x) => if (x[0] - 1.0).abs() > 1e-9 { report(out, "C17 system success means a root", "solve_jacobian, linear 3x3, max_iter=1".into(), format!("Ok(({}, ..))", x[0]), "(1, 1, 5)".into()); } }
      for which in 0..2 { case();
          let run = |g: Vec<f64>, k: usize| { let mut nw = Newton::<Vec64>::new(Vec64::create(g)); nw.iterations(k); if which == 0 { nw.solve(&f3) } else { nw.solve_jacobian(&f3, &j3) } };
          let at_once = run(vec![3.0, -2.0, 2.5], 2);
          let step1 = run(vec![3.0, -2.0, 2.5], 1);
          if let (Err(a), Err(s1)) = (&at_once, &step1) { if let Err(s2) = run((0..3).map(|i| s1[i]).collect(), 1) {
              if (0..3).any(|i| a[i].to_bits() != s2[i].to_bits()) { report(out, "C17 failure carries the last iterate (two steps at once equal two one-step runs restarted from the carried iterate)", format!("3x3 system from (3, -2, 2.5), {}", if which == 0 { "solve" } else { "solve_jacobian" }), format!("({}, {}, {})", a[0], a[1], a[2]), format!("({}, {}, {})", s2[0], s2[1], s2[2])); } } } }
    }
    // systems: Ok exactly when some evaluated iterate had residual <= tol within the budget
    let lin = |x: Vec64| Vec64::create(vec![2.0 * x[0] + x[1] - 3.0, x[0] + 3.0 * x[1] - 4.0, x[2] - 5.0]);
    let linj = |_x: Vec64| { let mut m = Mat64::new(3, 3, 0.0); m[(0, 0)] = 2.0; m[(0, 1)] = 1.0; m[(1, 0)] = 1.0; m[(1, 1)] = 3.0; m[(2, 2)] = 1.0; m };
    let cub = |x: Vec64| Vec64::create(vec![x[0] * x[0] * x[0] + x[1] - 1.0, x[1] * x[1] * x[1] - x[0] + 1.0]);
    let cubj = |x: Vec64| { let mut m = Mat64::new(2, 2, 0.0); m[(0, 0)] = 3.0 * x[0] * x[0]; m[(0, 1)] = 1.0; m[(1, 0)] = -1.0; m[(1, 1)] = 3.0 * x[1] * x[1]; m };
    for limit in 0..12usize { case();
        for (name, guess, f, j) in [("linear 3x3", vec![0.0, 0.0, 0.0], &lin as &dyn Fn(Vec64) -> Vec64, &linj as &dyn Fn(Vec64) -> Mat64), ("cubic 2x2", vec![0.9, 0.1], &cub, &cubj)] { case();
            let seen_ok = Cell::new(false);
            let rec = |x: Vec64| { let v = f(x); if v.norm_inf() <= 1e-8 { seen_ok.set(true); } v };
            let mut nw = Newton::<Vec64>::new(Vec64::create(guess.clone())); nw.iterations(limit);
            let r = nw.solve_jacobian(&rec, j);
            if r.is_ok() != seen_ok.get() { report(out, "C17 solve_jacobian reports Ok exactly when the stopping test was met within the budget", format!("{} guess={:?} max_iter={}", name, guess, limit), format!("{}", if r.is_ok() { "Ok" } else { "Err" }), format!("{}", if seen_ok.get() { "Ok" } else { "Err" })); }
            let seen2 = Cell::new(false); let rec2 = |x: Vec64| { let v = f(x); if v.norm_inf() <= 1e-8 { seen2.set(true); } v };
            let r2 = nw.solve(&rec2);
            if r2.is_ok() && !seen2.get() { report(out, "C17 solve reports Ok only when the stopping test was met", format!("{} max_iter={}", name, limit), "Ok".into(), "Err".into()); }
        }
    }
}
fn c18(rng: &mut Rng, out: &mut Out) {
    use std::cell::RefCell;
    for m in 1..up(5, 7) { for n in 1..up(5, 7) { for _ in 0..4 { case();
        let a: Vec<Vec<f64>> = (0..m).map(|_| (0..n).map(|_| if rng.below(4) == 0 { 0.0 } else { rng.f() }).collect()).collect();
        let c: Vec<f64> = (0..m).map(|_| rng.f()).collect(); let mut p: Vec<f64> = (0..n).map(|_| rng.f()).collect();
        for t in 0..n { match rng.below(6) { 0 => p[t] = -0.0625, 1 => p[t] = -0.03125, 2 => p[t] = 0.0, _ => {} } }     // within one step of zero, and the exact tie (for the step 1/16)
        // every dyadic step 2^-4 .. 2^-26 keeps the quotients exact; rows of mixed scale (a large offset next to small coefficients)
        let delta = [0.0625, 2.0f64.powi(-10), 2.0f64.powi(-20), 2.0f64.powi(-24), 2.0f64.powi(-26), 0.03125][rng.below(6) as usize];
        let (mut a, mut c) = (a, c);
        if n >= 2 && rng.below(4) == 0 { let j = rng.below(n as u64 - 1) as usize; for i in 0..m { let v = if a[i][j] == 0.0 { 1.5 } else { a[i][j] }; a[i][j] = v; a[i][j + 1] = v; } }      // two equal adjacent columns
        if rng.below(3) == 0 && m >= 2 { let i = rng.below(m as u64) as usize; for j in 0..n { a[i][j] *= 2.0f64.powi(-9); } let i2 = (i + 1 + rng.below(m as u64 - 1) as usize) % m; c[i2] = 1048576.0; }      // the large offset sits in ANOTHER component
        let calls: RefCell<Vec<Vec<f64>>> = RefCell::new(vec![]);
        let f = |x: Vec64| { calls.borrow_mut().push((0..n).map(|i| x[i]).collect()); Vec64::create((0..m).map(|i| c[i] + (0..n).map(|j| a[i][j] * x[j]).sum::<f64>()).collect()) };
        let ctx = format!("affine map R^{}->R^{} M={:?} c={:?} point={:?} delta={}", n, m, a, c, p, delta);
        match quiet(|| Mat64::jacobian(Vec64::create(p.clone()), &f, delta)) {
            Ok(j) => { if j.rows() != m || j.cols() != n { report(out, "C18 Jacobian is m x n", ctx.clone(), format!("{}x{}", j.rows(), j.cols()), format!("{}x{}", m, n)); continue; }
                for i in 0..m { for k in 0..n { if j[(i, k)] != a[i][k] { report(out, "C18 Jacobian of an affine map is its matrix (dyadic data)", ctx.clone(), format!("J[{},{}]={}", i, k, j[(i, k)]), format!("{}", a[i][k])); } } }
                let cs = calls.borrow(); for (k, x) in cs.iter().enumerate().skip(1) { for t in 0..n { let e = if t == k - 1 { p[t] + delta } else { p[t] }; if x[t] != e { report(out, "C18 each coordinate is restored before the next is perturbed", ctx.clone(), format!("call {} at {:?}", k, x), format!("coordinate {} == {}", t, e)); } } } }
            Err(e) => report(out, "C18 jacobian panicked", ctx.clone(), e, format!("{}x{}", m, n)),
        }
        // nonlinear map insensitive to a coordinate at the point
        let fc = |x: Vector<Cmplx>| Vector::create((0..m).map(|i| (0..n).fold(Cmplx::new(c[i], 0.0), |s, j| s + x[j] * Cmplx::new(a[i][j], 0.5 * a[i][j]))).collect());
        match quiet(|| Matrix::<Cmplx>::jacobian_cmplx(Vector::create(p.iter().map(|v| Cmplx::new(*v, 0.0)).collect()), &fc, delta)) {
            Ok(j) => { if j.rows() != m || j.cols() != n { report(out, "C18 complex Jacobian is m x n", ctx.clone(), format!("{}x{}", j.rows(), j.cols()), format!("{}x{}", m, n)); continue; }
                for i in 0..m { for k in 0..n { let e = Cmplx::new(a[i][k], 0.5 * a[i][k]); if (j[(i, k)] - e).abs() > 1e-9 { report(out, "C18 complex Jacobian of an affine map is its matrix", ctx.clone(), format!("J[{},{}]=({},{})", i, k, j[(i, k)].real, j[(i, k)].imag), format!("({},{})", e.real, e.imag)); } } } }
            Err(e) => report(out, "C18 jacobian_cmplx panicked", ctx, e, format!("{}x{}", m, n)),
        }
    } } }
    { // complex map with cross terms on dyadic data: forward quotients at the base point, one coordinate perturbed at a time
      let pts: RefCell<Vec<Vec<(f64, f64)>>> = RefCell::new(vec![]);
      let h = |z: Vector<Cmplx>| { pts.borrow_mut().push((0..3).map(|i| (z[i].real, z[i].imag)).collect()); Vector::create(vec![z[0] * z[1], z[0] * z[0] + z[2], z[1] * z[2]]) };
      let base = vec![Cmplx::new(1.5, 0.5), Cmplx::new(-0.5, 2.0), Cmplx::new(2.0, -1.0)]; let dl = 0.0625;
      match quiet(|| Matrix::<Cmplx>::jacobian_cmplx(Vector::create(base.clone()), &h, dl)) {
          Ok(j) => { let f0 = vec![base[0] * base[1], base[0] * base[0] + base[2], base[1] * base[2]];
              for c in 0..3 { let mut p = base.clone(); p[c] = p[c] + Cmplx::new(dl, 0.0); let f1 = vec![p[0] * p[1], p[0] * p[0] + p[2], p[1] * p[2]];
                  for r in 0..3 { let e = (f1[r] - f0[r]) / dl; if (j[(r, c)] - e).abs() > 1e-12 { report(out, "C18 complex Jacobian entries are forward difference quotients at the base point", format!("f=(z0 z1, z0^2+z2, z1 z2) at {:?} delta={}", base.iter().map(|z| (z.real, z.imag)).collect::<Vec<_>>(), dl), format!("J[{},{}]=({}, {})", r, c, j[(r, c)].real, j[(r, c)].imag), format!("({}, {})", e.real, e.imag)); } } }
              let ps = pts.borrow(); for (k, x) in ps.iter().enumerate().skip(1) { for t in 0..3 { let e = if t == k - 1 { base[t].real + dl } else { base[t].real }; if x[t].0 != e || x[t].1 != base[t].imag { report(out, "C18 complex: each coordinate is restored before the next is perturbed", format!("evaluation {} coordinate {}", k, t), format!("{:?}", x[t]), format!("({}, {})", e, base[t].imag)); } } } }
          Err(e) => report(out, "C18 jacobian_cmplx panicked", "nonlinear 3x3 map".into(), e, "a matrix".into()) } }
    let g = |x: Vec64| Vec64::create(vec![x[0] * x[1], x[1] * x[2] + x[0] * x[2]]);
    let j = Mat64::jacobian(Vec64::create(vec![2.0, 0.0, 0.0]), &g, 0.0625);
    if j[(0, 1)] != 2.0 || j[(1, 2)] != 2.0 { report(out, "C18 entries are forward difference quotients at the unperturbed other coordinates", "f=(x0*x1, x1*x2+x0*x2) at (2,0,0) delta=1/16".into(), format!("J[0,1]={} J[1,2]={}", j[(0, 1)], j[(1, 2)]), "2, 2".into()); }
}

// ---------------------------------------------------------------- C19 meshes
fn c19_file(rng: &mut Rng, out: &mut Out) {
    // writing a 1-D mesh to a file and reading it back reproduces nodes and variables (dyadic data, printed exactly),
    // whether the target mesh is new or already holds an (other) grid
    let dir = std::env::temp_dir();
    for it in 0..24 { case();
        let (n, nv) = (2 + rng.below(up(6, 11) as u64) as usize, 1 + rng.below(up(3, 4) as u64) as usize);
        // every printed precision (0, 3, 8 decimals) with data that prints exactly at it; magnitudes from 0.5 to 1e6 and large negative
        // values / nodes (fields of 7 and more characters), so that the column separator is what keeps neighbouring numbers apart
        let prec = [8usize, 0, 3, 8][it % 4];
        let unit = if prec == 0 { 1.0 } else { 0.5 };
        let vscale = unit * [1.0, 4096.0, 131072.0][(it / 4) % 3];
        let x0 = if it % 8 >= 4 { -262144.0 } else { -1.0 };
        let xstep = if prec == 0 { 1.0 } else { 0.25 };
        let xs: Vec<f64> = (0..n).scan(x0, |s, _| { *s += xstep * (1 + rng.below(4)) as f64; Some(*s) }).collect();
        let mut m = Mesh1D::<f64, f64>::new(Vector::create(xs.clone()), nv);
        let mut model = vec![vec![0.0f64; nv]; n];
        for i in 0..n { let v: Vec<f64> = (0..nv).map(|_| rng.int(-9, 9) as f64 * vscale).collect(); model[i] = v.clone(); m.set_nodes_vars(i, Vector::create(v)); }
        let path = dir.join(format!("ohsl_replay_c19_{}_{}.dat", std::process::id(), it));
        let ps = path.to_string_lossy().to_string();
        let ctx = format!("precision={} nodes={:?} vars={:?}", prec, xs, model);
        if it % 2 == 1 { // the path already holds a longer file of an earlier mesh: output replaces it
            let longer = Mesh1D::<f64, f64>::new(Vector::create((0..n + 9).map(|i| i as f64).collect()), nv);
            if quiet(|| longer.output(&ps, 8)).is_err() { report(out, "C19 output panicked", ctx.clone(), "panic".into(), "a file".into()); continue; } }
        if quiet(|| m.output(&ps, prec)).is_err() { report(out, "C19 output panicked", ctx.clone(), "panic".into(), "a file".into()); continue; }
        let targets: Vec<(&str, Mesh1D<f64, f64>)> = vec![
            ("a new mesh", Mesh1D::<f64, f64>::new(Vector::create(vec![0.0, 1.0]), nv)),
            ("a mesh holding the same grid and data", { let mut c = Mesh1D::<f64, f64>::new(Vector::create(xs.clone()), nv); for i in 0..n { c.set_nodes_vars(i, Vector::create(model[i].clone())); } c }),
            ("a mesh on a longer grid", Mesh1D::<f64, f64>::new(Vector::create((0..n + 3).map(|i| i as f64).collect()), nv))];
        for (what, mut t) in targets { case();
            match quiet(std::panic::AssertUnwindSafe(|| { t.read(&ps); })) {
                Ok(()) => { let ok = t.nnodes() == n && (0..n).all(|i| t.coord(i) == xs[i] && (0..nv).all(|k| t.get_nodes_vars(i)[k] == model[i][k]));
                    if !ok { report(out, "C19 reading a written 1-D mesh back reproduces nodes and variables", format!("{} read into {}", ctx, what), format!("{} nodes, first coord {}", t.nnodes(), if t.nnodes() > 0 { t.coord(0) } else { f64::NAN }), format!("{} nodes", n)); } }
                Err(e) => report(out, "C19 read panicked on a file written by output", format!("{} read into {}", ctx, what), e, "the mesh".into()),
            }
        }
        let _ = std::fs::remove_file(&path);
    }
}
fn c19(rng: &mut Rng, out: &mut Out) {
    for _ in 0..60 { case();
        let (nx, ny, nv) = (2 + rng.below(up(4, 11) as u64) as usize, 2 + rng.below(up(4, 11) as u64) as usize, 1 + rng.below(up(3, 4) as u64) as usize);
        let xs: Vec<f64> = (0..nx).scan(0.0, |s, _| { *s += 0.25 * (1 + rng.below(4)) as f64; Some(*s) }).collect();
        let ys: Vec<f64> = (0..ny).scan(-1.0, |s, _| { *s += 0.5 * (1 + rng.below(3)) as f64; Some(*s) }).collect();
        let mut m2 = Mesh2D::<f64>::new(Vector::create(xs.clone()), Vector::create(ys.clone()), nv);
        let mut model = vec![vec![vec![0.0f64; nv]; ny]; nx];
        for i in 0..nx { for j in 0..ny { let v: Vec<f64> = (0..nv).map(|_| rng.int(-9, 9) as f64).collect(); model[i][j] = v.clone();
            if rng.below(2) == 0 { m2.set_nodes_vars(i, j, Vector::create(v)); } else { for k in 0..nv { m2[(i, j)][k] = v[k]; } } } }
        let ctx = format!("nx={} ny={} nvars={}", nx, ny, nv);
        for i in 0..nx { for j in 0..ny { for k in 0..nv { case();
            if m2.get_nodes_vars(i, j)[k] != model[i][j][k] || m2[(i, j)][k] != model[i][j][k] { report(out, "C19 2-D mesh returns what was stored", format!("{} node ({},{}) var {}", ctx, i, j, k), format!("{}", m2.get_nodes_vars(i, j)[k]), format!("{}", model[i][j][k])); }
        } } }
        for k in 0..nv { case(); match quiet(|| m2.var_as_matrix(k)) {
            Ok(mm) => { if mm.rows() != nx || mm.cols() != ny || (0..nx).any(|i| (0..ny).any(|j| mm[(i, j)] != model[i][j][k])) { report(out, "C19 var_as_matrix returns the stored variable at every node", format!("{} var {}", ctx, k), "differs".into(), "stored values".into()); } }
            Err(e) => report(out, "C19 var_as_matrix panicked", format!("{} var {}", ctx, k), e, "a matrix".into()) } }
        for i in 0..nx { let s = m2.cross_section_xnode(i); for j in 0..ny { if s.coord(j) != ys[j] || (0..nv).any(|k| s.get_nodes_vars(j)[k] != model[i][j][k]) { report(out, "C19 cross_section_xnode", format!("{} i={}", ctx, i), "differs".into(), "row of nodes".into()); } } }
        for j in 0..ny { let s = m2.cross_section_ynode(j); for i in 0..nx { if s.coord(i) != xs[i] || (0..nv).any(|k| s.get_nodes_vars(i)[k] != model[i][j][k]) { report(out, "C19 cross_section_ynode", format!("{} j={}", ctx, j), "differs".into(), "column of nodes".into()); } } }
        // bilinear integrand: trapezium exact
        let (a0, a1, a2, a3) = (rng.int(-3, 3) as f64, rng.int(-3, 3) as f64, rng.int(-3, 3) as f64, rng.int(-3, 3) as f64);
        m2.apply(&|x, y| a0 + a1 * x + a2 * y + a3 * x * y, 0);
        let prim = |x: f64, y: f64| a0 * x * y + a1 * x * x * y / 2.0 + a2 * x * y * y / 2.0 + a3 * x * x * y * y / 4.0;
        let ex = prim(xs[nx - 1], ys[ny - 1]) - prim(xs[0], ys[ny - 1]) - prim(xs[nx - 1], ys[0]) + prim(xs[0], ys[0]);
        if (m2.trapezium(0) - ex).abs() > 1e-9 * (1.0 + ex.abs()) { report(out, "C19 2-D trapezium is exact for bilinear integrands", format!("{} xs={:?} ys={:?} f={}+{}x+{}y+{}xy", ctx, xs, ys, a0, a1, a2, a3), format!("{}", m2.trapezium(0)), format!("{}", ex)); }
        // 1-D mesh
        let mut m1 = Mesh1D::<f64, f64>::new(Vector::create(xs.clone()), nv);
        let data: Vec<Vec<f64>> = (0..nx).map(|_| (0..nv).map(|_| rng.int(-9, 9) as f64).collect()).collect();
        for i in 0..nx { m1.set_nodes_vars(i, Vector::create(data[i].clone())); }
        for i in 0..nx { let v = m1.get_interpolated_vars(xs[i]); for k in 0..nv { if v[k] != data[i][k] { report(out, "C19 interpolation reproduces nodal values at every node", format!("nodes={:?} node {} var {}", xs, i, k), format!("{}", v[k]), format!("{}", data[i][k])); } } }
        for i in 0..nx - 1 { let xm = 0.5 * (xs[i] + xs[i + 1]); let v = m1.get_interpolated_vars(xm); for k in 0..nv { let e = 0.5 * (data[i][k] + data[i + 1][k]); if (v[k] - e).abs() > 1e-12 { report(out, "C19 interpolation is linear between neighbours", format!("nodes={:?} x={}", xs, xm), format!("{}", v[k]), format!("{}", e)); } } }
        // grids far from the origin: a point 2^-19 (> 1e-6) from a node, the mid-cell point and a point 2^-19 before the next node lie on
        // the line of their own cell, whatever the size of the coordinates
        for (x0, h) in [(64.0f64, 0.25f64), (16384.0, 0.001953125), (-1024.0, 0.00390625), (0.0, 0.0078125)] {
            let xt: Vec<f64> = (0..nx).scan(x0, |s, _| { *s += h * (1 + rng.below(3)) as f64; Some(*s) }).collect();
            let mut mt = Mesh1D::<f64, f64>::new(Vector::create(xt.clone()), 1);
            let dt: Vec<f64> = (0..nx).map(|_| rng.int(-9, 9) as f64 * 16.0).collect();
            for i in 0..nx { mt.set_nodes_vars(i, Vector::create(vec![dt[i]])); }
            for i in 0..nx - 1 { let w = xt[i + 1] - xt[i]; for off in [1.9073486328125e-6, 0.5 * w, w - 1.9073486328125e-6] { case();
                let x = xt[i] + off; let e = dt[i] + (dt[i + 1] - dt[i]) * off / w;
                match quiet(|| mt.get_interpolated_vars(x)) {
                    Ok(v) => if !((v[0] - e).abs() <= 1e-9 * (1.0 + e.abs())) { report(out, "C19 interpolation at an interior point (>= 1e-6 from every node) lies on the line of its own cell, also for large coordinates", format!("nodes={:?} values={:?} x={:?}", xt, dt, x), format!("{}", v[0]), format!("{}", e)); },
                    Err(er) => report(out, "C19 interpolation panicked at an interior point", format!("nodes={:?} x={:?}", xt, x), er, format!("{}", e)) }
            } }
        }
        let tr: f64 = (0..nx - 1).map(|i| 0.5 * (xs[i + 1] - xs[i]) * (data[i][0] + data[i + 1][0])).sum(); if (m1.trapezium(0) - tr).abs() > 1e-12 * (1.0 + tr.abs()) { report(out, "C19 1-D trapezium equals the sum of cell contributions", format!("nodes={:?}", xs), format!("{}", m1.trapezium(0)), format!("{}", tr)); }
    }
}

// ---------------------------------------------------------------- C20 rejection / consuming == borrowed
fn c20(rng: &mut Rng, out: &mut Out) {
    let must_panic = |out: &mut Out, what: String, r: Result<(), String>| if r.is_ok() { report(out, "C20 mismatched shapes / out-of-range arguments are rejected by a panic", what, "returned a value".into(), "panic".into()); };
    for a in 1..up(5, 7) { for b in 1..up(5, 7) { if a == b { continue; }
        let (va, vb) = (Vector::<Q>::new(a, Q::int(1)), Vector::<Q>::new(b, Q::int(2)));
        must_panic(out, format!("Vector({}) + Vector({})", a, b), quiet(|| { let _ = &va + &vb; }));
        must_panic(out, format!("Vector({}) - Vector({})", a, b), quiet(|| { let _ = &va - &vb; }));
        must_panic(out, format!("Vector({}).dot(Vector({}))", a, b), quiet(|| { let _ = va.dot(&vb); }));
        must_panic(out, format!("Vector({}) += Vector({})", a, b), quiet(|| { let mut t = va.clone(); t += vb.clone(); }));
        let (ma, mb) = (Matrix::<Q>::new(a, b, Q::int(1)), Matrix::<Q>::new(b, a, Q::int(1)));
        must_panic(out, format!("Matrix({}x{}) + Matrix({}x{})", a, b, b, a), quiet(|| { let _ = &ma + &mb; }));
        must_panic(out, format!("Matrix({}x{}) * Matrix({}x{})", a, b, a, b), quiet(|| { let _ = &ma * &ma; }));
        must_panic(out, format!("Matrix({}x{}) - Matrix({}x{})", a, b, b, a), quiet(|| { let _ = &ma - &mb; }));
        must_panic(out, format!("Matrix({}x{}) += &Matrix({}x{}) (same number of elements)", a, b, b, a), quiet(|| { let mut t = ma.clone(); t += &mb; }));
        must_panic(out, format!("Matrix({}x{}) -= &Matrix({}x{}) (same number of elements)", a, b, b, a), quiet(|| { let mut t = ma.clone(); t -= &mb; }));
        must_panic(out, format!("Matrix({}x{}) += Matrix({}x{}) (same number of elements)", a, b, b, a), quiet(|| { let mut t = ma.clone(); t += mb.clone(); }));
        // operands built by a shape-changing operation: the transpose of a x b is b x a and is accepted / rejected as such
        { let mt = ma.transpose();
          if mt.rows() != b || mt.cols() != a { report(out, "C20 transpose exchanges the dimensions (shape checks downstream rely on it)", format!("Matrix({}x{}).transpose()", a, b), format!("{}x{}", mt.rows(), mt.cols()), format!("{}x{}", b, a)); }
          must_panic(out, format!("Matrix({}x{}).transpose() + Matrix({}x{})", a, b, a, b), quiet(|| { let _ = &mt + &ma; }));
          must_panic(out, format!("Matrix({}x{}).transpose().multiply(Vector({}))", a, b, b), quiet(|| { let _ = mt.multiply(&vb); }));
          if quiet(|| { let _ = &mt + &mb; }).is_err() { report(out, "C20 conformable operands are accepted", format!("Matrix({}x{}).transpose() + Matrix({}x{})", a, b, b, a), "panic".into(), "a sum".into()); }
          let mut ip = ma.clone(); ip.transpose_in_place();
          if ip.rows() != b || ip.cols() != a { report(out, "C20 transpose exchanges the dimensions (shape checks downstream rely on it)", format!("Matrix({}x{}).transpose_in_place()", a, b), format!("{}x{}", ip.rows(), ip.cols()), format!("{}x{}", b, a)); } }
        must_panic(out, format!("Matrix({}x{}).multiply(Vector({}))", a, b, a), quiet(|| { let _ = ma.multiply(&va); }));
        must_panic(out, format!("Matrix({}x{}).set_col({}, ..)", a, b, b), quiet(|| { let mut t = ma.clone(); t.set_col(b, Vector::<Q>::new(a, Q::int(0))); }));
        must_panic(out, format!("Matrix({}x{}).solve_basic(Vector({}))", a, a, b), quiet(|| { let mut t = Matrix::<Q>::eye(a); let _ = t.solve_basic(&vb); }));
        must_panic(out, format!("Tridiagonal({}) * Vector({})", a, b), quiet(|| { let t = Tridiagonal::<Q>::with_elements(Q::int(1), Q::int(2), Q::int(1), a); let _ = &t * &vb; }));
        must_panic(out, format!("Tridiagonal({}) + Tridiagonal({})", a, b), quiet(|| { let _ = Tridiagonal::<Q>::new(a) + Tridiagonal::<Q>::new(b); }));
        must_panic(out, format!("Banded(n={}) * Vector({})", a, b), quiet(|| { let t = Banded::<Q>::new(a, 0, 0, Q::int(1)); let _ = &t * &vb; }));
        must_panic(out, format!("Banded(n={}).solve(Vector({}))", a, b), quiet(|| { let t = Banded::<Q>::new(a, 0, 0, Q::int(1)); let _ = t.solve(&vb); }));
        let mut tr = vec![(0usize, 0usize, Q::int(1))]; let sp = Sparse::<Q>::from_triplets(a, a, &mut tr);
        must_panic(out, format!("Sparse({}x{}).multiply(Vector({}))", a, a, b), quiet(|| { let _ = sp.multiply(&vb); }));
        must_panic(out, format!("Sparse({}x{}).get({}, 0)", a, a, a), quiet(|| { let _ = sp.get(a, 0); }));
    } }
    // Banded operands must agree in n, m1 AND m2 (equal total bandwidth is not enough)
    for (p, q) in [((4usize, 1usize, 2usize), (4usize, 2usize, 1usize)), ((5, 0, 2), (5, 2, 0)), ((4, 1, 1), (4, 0, 2))] { case();
        let (x, y) = (Banded::<Q>::new(p.0, p.1, p.2, Q::int(1)), Banded::<Q>::new(q.0, q.1, q.2, Q::int(2)));
        must_panic(out, format!("Banded{:?} + Banded{:?}", p, q), quiet(|| { let _ = &x + &y; }));
        must_panic(out, format!("Banded{:?} - Banded{:?}", p, q), quiet(|| { let _ = &x - &y; }));
        must_panic(out, format!("Banded{:?} += Banded{:?}", p, q), quiet(|| { let mut t = x.clone(); t += &y; }));
        must_panic(out, format!("Banded{:?} -= Banded{:?}", p, q), quiet(|| { let mut t = x.clone(); t -= &y; }));
        must_panic(out, format!("Banded{:?} += Banded{:?} (consuming)", p, q), quiet(|| { let mut t = x.clone(); t += y.clone(); }));
        must_panic(out, format!("Banded{:?} -= Banded{:?} (consuming)", p, q), quiet(|| { let mut t = x.clone(); t -= y.clone(); }));
        must_panic(out, format!("Banded{:?} + Banded{:?} (consuming)", p, q), quiet(|| { let _ = x.clone() + y.clone(); }));
        must_panic(out, format!("Banded{:?} - Banded{:?} (consuming)", p, q), quiet(|| { let _ = x.clone() - y.clone(); }));
    }
    // every pair of different bandwidth splits with the same n and the same m1 + m2, every form
    for n in 2..7usize { for tot in 1..n { for a1 in 0..=tot { for b1 in 0..=tot { if a1 == b1 || tot - a1 >= n || tot - b1 >= n || a1 >= n || b1 >= n { continue; } case();
        let (x, y) = (Banded::<Q>::new(n, a1, tot - a1, Q::int(1)), Banded::<Q>::new(n, b1, tot - b1, Q::int(2)));
        let what = format!("Banded(n={}, {}, {}) op Banded(n={}, {}, {})", n, a1, tot - a1, n, b1, tot - b1);
        must_panic(out, format!("{} [&x + &y]", what), quiet(|| { let _ = &x + &y; }));
        must_panic(out, format!("{} [x + y]", what), quiet(|| { let _ = x.clone() + y.clone(); }));
        must_panic(out, format!("{} [&x - &y]", what), quiet(|| { let _ = &x - &y; }));
        must_panic(out, format!("{} [x - y]", what), quiet(|| { let _ = x.clone() - y.clone(); }));
        must_panic(out, format!("{} [x += &y]", what), quiet(|| { let mut t = x.clone(); t += &y; }));
        must_panic(out, format!("{} [x += y]", what), quiet(|| { let mut t = x.clone(); t += y.clone(); }));
        must_panic(out, format!("{} [x -= &y]", what), quiet(|| { let mut t = x.clone(); t -= &y; }));
        must_panic(out, format!("{} [x -= y]", what), quiet(|| { let mut t = x.clone(); t -= y.clone(); }));
    } } } }
    // operands of equal size are accepted by every size-checked entry point of Vector<f64> (threaded and sequential dot), sizes 0..=6
    for n in 0..7usize { case();
        let (va, vb) = (Vec64::create((0..n).map(|i| i as f64 + 1.0).collect()), Vec64::create((0..n).map(|i| 2.0 - i as f64).collect()));
        match quiet(|| (va.dot_f64(&vb), va.dot(&vb))) { Ok((p, q)) => if p.to_bits() != q.to_bits() { report(out, "C20 dot_f64 and dot agree on conformable operands", format!("size {}", n), format!("{}", p), format!("{}", q)); },
            Err(e) => report(out, "C20 conformable operands are accepted", format!("Vector({}).dot_f64(Vector({}))", n, n), e, "a value".into()) }
    }
    // the range-checked setter of the 2-D mesh writes the node it names and no other (meshes up to 6 x 6, every node)
    for nx in 1..7usize { for ny in 1..7usize { case();
        let mut m2 = Mesh2D::<f64>::new(Vector::create((0..nx).map(|i| i as f64).collect()), Vector::create((0..ny).map(|j| 0.5 * j as f64).collect()), 2);
        let mut model = vec![vec![[0.0f64; 2]; ny]; nx]; let mut bad = false;
        for i in 0..nx { for j in 0..ny { if bad { break; }
            let v = [(1 + i * ny + j) as f64, -((1 + i + j * nx) as f64)]; model[i][j] = v;
            if quiet(std::panic::AssertUnwindSafe(|| m2.set_nodes_vars(i, j, Vector::create(v.to_vec())))).is_err() { report(out, "C20 in-range arguments are accepted", format!("Mesh2D({}x{}).set_nodes_vars({}, {}, ..)", nx, ny, i, j), "panic".into(), "stored".into()); bad = true; break; }
            for a in 0..nx { for b in 0..ny { let g = m2.get_nodes_vars(a, b); if g[0] != model[a][b][0] || g[1] != model[a][b][1] { if !bad { report(out, "C20 a checked write goes to the element it names and to no other", format!("Mesh2D({}x{}) after set_nodes_vars({}, {}, ..): node ({}, {})", nx, ny, i, j, a, b), format!("({}, {})", g[0], g[1]), format!("({}, {})", model[a][b][0], model[a][b][1])); } bad = true; } } }
        } }
        must_panic(out, format!("Mesh2D({}x{}).set_nodes_vars({}, 0, ..)", nx, ny, nx), quiet(std::panic::AssertUnwindSafe(|| m2.set_nodes_vars(nx, 0, Vector::create(vec![0.0, 0.0])))));
        must_panic(out, format!("Mesh2D({}x{}).set_nodes_vars(0, {}, ..)", nx, ny, ny), quiet(std::panic::AssertUnwindSafe(|| m2.set_nodes_vars(0, ny, Vector::create(vec![0.0, 0.0])))));
    } }
    for r in 0..4usize { for c in 1..4usize { case();
        let m0: M = (0..r).map(|i| (0..c).map(|j| Q::int((1 + i * c + j) as i64)).collect()).collect();
        let mk = || { let mut t = Matrix::<Q>::new(r, c, Q::int(0)); for i in 0..r { for j in 0..c { t[(i, j)] = m0[i][j]; } } t };
        // coinciding out-of-range arguments are still rejected
        must_panic(out, format!("Matrix({}x{}).swap_rows({}, {})", r, c, r, r), quiet(std::panic::AssertUnwindSafe(|| { let mut t = mk(); t.swap_rows(r, r); })));
        must_panic(out, format!("Matrix({}x{}).set_col({}, Vector({}))", r, c, c + 3, r), quiet(std::panic::AssertUnwindSafe(|| { let mut t = mk(); t.set_col(c + 3, Vector::<Q>::new(r, Q::int(9))); })));
        must_panic(out, format!("Matrix({}x{}).set_row({}, Vector({}))", r, c, r + 2, c), quiet(std::panic::AssertUnwindSafe(|| { let mut t = mk(); t.set_row(r + 2, Vector::<Q>::new(c, Q::int(9))); })));
        // a rejected call has not written anything
        let mut t = mk();
        let _ = quiet(std::panic::AssertUnwindSafe(|| t.set_col(c, Vector::<Q>::new(r, Q::int(9)))));
        let _ = quiet(std::panic::AssertUnwindSafe(|| t.set_row(r, Vector::<Q>::new(c, Q::int(9)))));
        let _ = quiet(std::panic::AssertUnwindSafe(|| t.set_col(0, Vector::<Q>::new(r + 1, Q::int(9)))));
        if t.rows() != r || t.cols() != c || (r > 0 && from_matrix(&t) != m0) { report(out, "C20 a rejected call leaves its operand unchanged", format!("Matrix({}x{}) after rejected set_col / set_row calls", r, c), mq(&from_matrix(&t)), mq(&m0)); }
        if r > 0 { let mut t2 = mk(); t2.swap_rows(r - 1, r - 1); if from_matrix(&t2) != m0 { report(out, "C20 an accepted call with coinciding arguments (swap_rows(i, i)) leaves the matrix as it is", format!("Matrix({}x{}).swap_rows({}, {})", r, c, r - 1, r - 1), mq(&from_matrix(&t2)), mq(&m0)); }
            let mut t3 = mk(); t3.swap_elem(r - 1, c - 1, r - 1, c - 1); if from_matrix(&t3) != m0 { report(out, "C20 an accepted call with coinciding arguments (swap_elem of a cell with itself) leaves the matrix as it is", format!("Matrix({}x{})", r, c), mq(&from_matrix(&t3)), mq(&m0)); } }
    } }
    // products with the largest square operand (6 x 6): non-conformable partners of every shape, borrowing and consuming
    { let sq = Matrix::<Q>::new(6, 6, Q::int(1));
      for a in 1..7usize { for b in 1..7usize { case();
        let m = Matrix::<Q>::new(a, b, Q::int(2));
        if a != 6 { must_panic(out, format!("&Matrix(6x6) * &Matrix({}x{})", a, b), quiet(|| { let _ = &sq * &m; })); must_panic(out, format!("Matrix(6x6) * Matrix({}x{})", a, b), quiet(|| { let _ = sq.clone() * m.clone(); })); }
        if b != 6 { must_panic(out, format!("&Matrix({}x{}) * &Matrix(6x6)", a, b), quiet(|| { let _ = &m * &sq; })); must_panic(out, format!("Matrix({}x{}) * Matrix(6x6)", a, b), quiet(|| { let _ = m.clone() * sq.clone(); })); }
        if a != 6 || b != 6 { must_panic(out, format!("&Matrix(6x6) + &Matrix({}x{})", a, b), quiet(|| { let _ = &sq + &m; })); must_panic(out, format!("&Matrix(6x6) - &Matrix({}x{})", a, b), quiet(|| { let _ = &sq - &m; })); }
      } } }
    // the result of an operation on matrices with different lower / upper bandwidths has their shape: it is accepted (not rejected) by the next
    // operation with an operand of that shape, and rejected with the swapped split
    for (n, m1, m2) in [(4usize, 1usize, 2usize), (5, 2, 0), (5, 0, 1), (6, 3, 1)] { case();
        let a = Banded::<Q>::new(n, m1, m2, Q::int(3)); let same = Banded::<Q>::new(n, m1, m2, Q::int(1)); let swapped = Banded::<Q>::new(n, m2, m1, Q::int(1));
        let results: Vec<(&'static str, Box<dyn Fn() -> Banded<Q>>)> = vec![("&a * 2", Box::new(|| &a * Q::int(2))), ("&a / 3", Box::new(|| &a / Q::int(3))), ("-&a", Box::new(|| -&a)), ("&a + &a", Box::new(|| &a + &a)), ("&a - &a", Box::new(|| &a - &a)), ("a.clone() * 2", Box::new(|| a.clone() * Q::int(2)))];
        for (name, f) in results.iter() { case();
            match quiet(|| f()) { Ok(h) => {
                    if h.size_below() != m1 || h.size_above() != m2 { report(out, "C20 the result of banded arithmetic reports the bandwidths of its operands", format!("Banded({},{},{}) [{}]", n, m1, m2, name), format!("({}, {})", h.size_below(), h.size_above()), format!("({}, {})", m1, m2)); }
                    if quiet(|| { let _ = &h + &same; }).is_err() { report(out, "C20 conformable operands are accepted", format!("({}) + Banded({},{},{})", name, n, m1, m2), "panic".into(), "a sum".into()); }
                    if quiet(|| { let mut t = h.clone(); t += &same; }).is_err() { report(out, "C20 conformable operands are accepted", format!("({}) += &Banded({},{},{})", name, n, m1, m2), "panic".into(), "a sum".into()); }
                    must_panic(out, format!("({}) + Banded({},{},{})", name, n, m2, m1), quiet(|| { let _ = &h + &swapped; })); }
                Err(e) => report(out, "C20 conformable operands are accepted", format!("Banded({},{},{}) [{}]", n, m1, m2, name), e, "a result".into()) }
        }
    }
    // a resize that keeps n and m1 + m2 but changes the split must change what is accepted
    for (p, q) in [((4usize, 1usize, 1usize), (4usize, 2usize, 0usize)), ((5, 2, 1), (5, 1, 2)), ((4, 0, 2), (4, 2, 0))] { case();
        let mut x = Banded::<Q>::new(p.0, p.1, p.2, Q::int(1)); x.resize(q.0, q.1, q.2);
        if x.size_below() != q.1 || x.size_above() != q.2 { report(out, "C20 Banded::resize updates the band counts the shape checks use", format!("new{:?} then resize{:?}", p, q), format!("({}, {})", x.size_below(), x.size_above()), format!("({}, {})", q.1, q.2)); }
        let same = Banded::<Q>::new(q.0, q.1, q.2, Q::int(2)); let old = Banded::<Q>::new(p.0, p.1, p.2, Q::int(2));
        must_panic(out, format!("Banded new{:?}.resize{:?} + Banded{:?}", p, q, p), quiet(|| { let _ = &x + &old; }));
        if quiet(|| { let _ = &x + &same; }).is_err() { report(out, "C20 conformable operands are accepted", format!("Banded new{:?}.resize{:?} + Banded{:?}", p, q, q), "panic".into(), "a sum".into()); }
    }
    // consuming forms return what the borrowed forms return; operands taken by reference are unchanged
    for _ in 0..200 { case();
        let (la, lb) = (rng.below(4) as usize, rng.below(4) as usize); let (a, b) = (pq(rng, la), pq(rng, lb));
        let (pa, pb) = (Polynomial::new(a.clone()), Polynomial::new(b.clone()));
        let ctx = format!("sizes ({}, {}) p={} q={}", la, lb, qs(&a), qs(&b));
        if coeffs_of(&(&pa - &pb)) != coeffs_of(&(pa.clone() - pb.clone())) { report(out, "C20 consuming Polynomial - equals &p - &q", ctx.clone(), qs(&coeffs_of(&(pa.clone() - pb.clone()))), qs(&coeffs_of(&(&pa - &pb)))); }
        if coeffs_of(&(&pa + &pb)) != coeffs_of(&(pa.clone() + pb.clone())) { report(out, "C20 consuming Polynomial + equals &p + &q", ctx.clone(), "differs".into(), "same".into()); }
        if coeffs_of(&pa) != a || coeffs_of(&pb) != b { report(out, "C20 operands taken by reference are unchanged", ctx, "changed".into(), "unchanged".into()); }
        let n = 1 + rng.below(3) as usize; let (m1, m2) = (rand_m(rng, n, n), rand_m(rng, n, n)); let (x, y) = (to_matrix(&m1), to_matrix(&m2));
        if from_matrix(&(&x + &y)) != from_matrix(&(x.clone() + y.clone())) || from_matrix(&(&x * &y)) != from_matrix(&(x.clone() * y.clone())) || from_matrix(&x) != m1 { report(out, "C20 consuming Matrix operators equal the borrowed ones, operands unchanged", mq(&m1), "differs".into(), "same".into()); }
        { // the same over Complex<f64> with non-dyadic entries: consuming and borrowing forms agree bit for bit
          let cz = |rng: &mut Rng| Cmplx::new(rng.int(-9, 9) as f64 * 0.1, rng.int(-9, 9) as f64 * 0.1);
          let mut mc = Matrix::<Cmplx>::new(n, n, Cmplx::new(0.0, 0.0)); let mut nc = Matrix::<Cmplx>::new(n, n, Cmplx::new(0.0, 0.0));
          for i in 0..n { for j in 0..n { mc[(i, j)] = cz(rng); nc[(i, j)] = cz(rng); } }
          let k = cz(rng);
          let same = |a: &Matrix<Cmplx>, b: &Matrix<Cmplx>| (0..n).all(|i| (0..n).all(|j| a[(i, j)].real.to_bits() == b[(i, j)].real.to_bits() && a[(i, j)].imag.to_bits() == b[(i, j)].imag.to_bits()));
          let cctx = format!("n={} scalar=({}, {})", n, k.real, k.imag);
          if !same(&(&mc * k), &(mc.clone() * k)) { report(out, "C20 consuming Matrix<Cmplx> * scalar equals the borrowing form bit for bit", cctx.clone(), "differs".into(), "identical".into()); }
          if k.abs() > 0.0 && !same(&(&mc / k), &(mc.clone() / k)) { report(out, "C20 consuming Matrix<Cmplx> / scalar equals the borrowing form bit for bit", cctx.clone(), "differs".into(), "identical".into()); }
          if !same(&(&mc + &nc), &(mc.clone() + nc.clone())) || !same(&(&mc - &nc), &(mc.clone() - nc.clone())) || !same(&(&mc * &nc), &(mc.clone() * nc.clone())) { report(out, "C20 consuming Matrix<Cmplx> + - * equal the borrowing forms bit for bit", cctx.clone(), "differs".into(), "identical".into()); }
          let vc = Vector::<Cmplx>::create((0..n).map(|_| cz(rng)).collect()); let wc = Vector::<Cmplx>::create((0..n).map(|_| cz(rng)).collect());
          let vsame = |a: &Vector<Cmplx>, b: &Vector<Cmplx>| (0..n).all(|i| a[i].real.to_bits() == b[i].real.to_bits() && a[i].imag.to_bits() == b[i].imag.to_bits());
          if !vsame(&(&vc + &wc), &(vc.clone() + wc.clone())) || !vsame(&(&vc - &wc), &(vc.clone() - wc.clone())) || !vsame(&(vc.clone() * k), &{ let mut t = vc.clone(); t *= k; t }) { report(out, "C20 consuming / in-place Vector<Cmplx> operators equal the borrowing forms bit for bit", cctx, "differs".into(), "identical".into()); } }
        let mut cl = x.clone(); cl[(0, 0)] = cl[(0, 0)] + Q::int(1); if from_matrix(&x) != m1 { report(out, "C20 a clone is independent of its original", mq(&m1), "original changed".into(), "unchanged".into()); }
    }
}

fn main() {
    let args: Vec<String> = std::env::args().collect();
    let pid = args.get(1).cloned().unwrap_or_default();
    let seed: u64 = args.get(2).and_then(|s| s.parse().ok()).unwrap_or(1);
    // panics are silent (the oracles provoke many on purpose) but the last one is remembered: a panic that ESCAPES an
    // oracle comes from a library call the oracle makes on an input the property covers, and is reported as a finding
    std::panic::set_hook(Box::new(|info| { if let Ok(mut g) = LAST_PANIC.lock() { *g = info.to_string(); } }));
    let mut rng = Rng(0x9E3779B97F4A7C15 ^ (seed.wrapping_mul(0x2545F4914F6CDD1D) | 1));
    let mut out: Out = vec![];
    // two passes: the small sizes (dense sampling of every small shape), then the sizes at the upper end of the quantified range
    let escaped = catch_unwind(AssertUnwindSafe(|| { let out = &mut out; let rng = &mut rng; for big in [false, true] { BIG.store(big, std::sync::atomic::Ordering::Relaxed);
        if big && matches!(pid.as_str(), "C13" | "C14" | "C16" | "C17") { continue; }      // no size parameter in these oracles
        match pid.as_str() {
        "C01" => { c01(rng, out); if !big { c01_extreme(rng, out) } }, "C02" => c02(rng, out), "C03" => { c03(rng, out); if !big { c03_empty(out) } }, "C04" => { c04(rng, out); c04_f64(rng, out) },
        "C05" => { c05(rng, out); c05_f64(rng, out); if !big { c05_ctor(out); c05_assemble(rng, out) } }, "C06" => { c06(rng, out); c06_raw(rng, out) }, "C07" => { c07(rng, out); c07_insert(rng, out); c07_raw(rng, out); c07_sizes(rng, out) }, "C08" => c08(rng, out),
        "C09" => c09(rng, out), "C10" => c10(rng, out), "C11" => c11(rng, out), "C12" => c12(rng, out),
        "C13" => c13(rng, out), "C14" => c14(rng, out), "C15" => c15(rng, out), "C16" => c16(rng, out),
        "C17" => c17(rng, out), "C18" => c18(rng, out), "C19" => { c19(rng, out); c19_file(rng, out) }, "C20" => c20(rng, out),
        _ => { eprintln!("unknown property {}", pid); std::process::exit(2); }
    } } }));
    if escaped.is_err() {
        let msg = LAST_PANIC.lock().map(|g| g.clone()).unwrap_or_default();
        out.push(Finding { oracle: "the library panicked on an input the property covers (the panic escaped the oracle)", input: format!("oracle {} seed {} after {} cases", pid, seed, CASES.load(std::sync::atomic::Ordering::Relaxed)), observed: msg, expected: "no panic".into() });
    }
    let esc = |s: &str| s.replace('\\', "\\\\").replace('"', "\\\"").replace('\n', " ");
    for f in &out {
        println!("{{\"property\":\"{}\",\"oracle\":\"{}\",\"input\":\"{}\",\"observed\":\"{}\",\"expected\":\"{}\",\"bounded\":true}}", pid, esc(f.oracle), esc(&f.input), esc(&f.observed), esc(&f.expected));
    }
    println!("{{\"summary\":true,\"property\":\"{}\",\"seed\":{},\"cases\":{},\"findings\":{}}}", pid, seed, CASES.load(std::sync::atomic::Ordering::Relaxed), out.len());
    std::process::exit(if out.is_empty() { 0 } else { 1 });
}
