#!/usr/bin/env python3
"""Confirm a sub-agent's seeded fault in a scratch worktree and keep it under /verif/seeded/.

usage: confirm_mutant.py <PROPERTY_ID> <mK> [--src /tmp/wt/<ID>/_mutants/<mK>]
Checks: patch applies to /repo HEAD; the crate builds and all 236 tests pass with it; the demo
fails with it and passes without it.  The scratch worktree is removed afterwards.
"""
import json, os, re, shutil, subprocess, sys, time
pid, mk = sys.argv[1], sys.argv[2]
src = '/tmp/wt/%s/_mutants/%s' % (pid, mk)
if '--src' in sys.argv:
    src = sys.argv[sys.argv.index('--src') + 1]
wt = '/tmp/cf/%s_%s' % (pid, mk)
env = dict(os.environ, CARGO_TARGET_DIR='/tmp/cf/target', CARGO_NET_OFFLINE='true')
def sh(cmd, cwd=None, check=False):
    p = subprocess.run(cmd, shell=True, cwd=cwd, env=env, stdout=subprocess.PIPE, stderr=subprocess.STDOUT, text=True)
    if check and p.returncode:
        print(p.stdout[-3000:]); raise SystemExit('FAILED: ' + cmd)
    return p
os.makedirs('/tmp/cf', exist_ok=True)
sh('git -C /repo worktree remove --force %s' % wt)
sh('git -C /repo worktree add -q --detach %s HEAD' % wt, check=True)
ok = False
log = {}
try:
    head = sh('git -C /repo rev-parse --short HEAD').stdout.strip()
    p = sh('git apply %s/patch.diff' % src, cwd=wt)
    if p.returncode:
        print('patch does not apply:', p.stdout); raise SystemExit(1)
    t = sh('timeout 900 cargo test --workspace --no-fail-fast --offline 2>&1 | grep -E "^test result|^error" ', cwd=wt)
    log['suite_with_patch'] = t.stdout.strip().split('\n')
    if not re.search(r'test result: ok\. 236 passed; 0 failed', t.stdout) or 'FAILED' in t.stdout or re.search(r'^error', t.stdout, re.M):
        print('suite does not pass with the patch:', t.stdout); raise SystemExit(1)
    shutil.copy(src + '/demo.rs', wt + '/tests/demo_seeded.rs')
    # a demonstration of non-termination may hang: 300 s limit, a timeout with the patch counts as a failing demonstration
    d1 = sh('(timeout 300 cargo test --offline --test demo_seeded 2>&1; echo DEMO_EXIT=$?) | tail -16', cwd=wt)
    log['demo_with_patch'] = [l for l in d1.stdout.split('\n') if l.startswith('test result') or 'panicked' in l or l.startswith('DEMO_EXIT')][:6]
    failed_with = bool(re.search(r'test result: FAILED', d1.stdout)) or 'error: test failed' in d1.stdout or 'DEMO_EXIT=124' in d1.stdout
    sh('git checkout -- src', cwd=wt, check=True)
    d2 = sh('timeout 600 cargo test --offline --test demo_seeded 2>&1 | tail -15', cwd=wt)
    log['demo_without_patch'] = [l for l in d2.stdout.split('\n') if l.startswith('test result')][:3]
    passed_without = bool(re.search(r'test result: ok\.', d2.stdout)) and not re.search(r'test result: FAILED', d2.stdout)
    print('demo fails with patch:', failed_with, '| passes without:', passed_without)
    if not (failed_with and passed_without):
        print(d1.stdout[-1500:]); print(d2.stdout[-1500:]); raise SystemExit(1)
    dst = os.path.join(os.path.dirname(os.path.dirname(os.path.abspath(__file__))), 'seeded', '%s-%s' % (pid, mk))
    os.makedirs(dst, exist_ok=True)
    for f in ('patch.diff', 'demo.rs', 'README.md'):
        if os.path.exists(os.path.join(src, f)):
            shutil.copy(os.path.join(src, f), os.path.join(dst, f))
    readme = open(os.path.join(src, 'README.md')).read() if os.path.exists(os.path.join(src, 'README.md')) else ''
    meta = {'property': pid, 'id': '%s-%s' % (pid, mk), 'base_commit': head,
            'needs_to_manifest': readme.strip()[:1500],
            'confirmed': {'what_i_ran': ['git apply patch.diff (scratch worktree of /repo HEAD)',
                                          'cargo test --workspace --no-fail-fast --offline  -> 236 passed, 0 failed',
                                          'cp demo.rs tests/demo_seeded.rs; cargo test --offline --test demo_seeded -> FAILED with patch',
                                          'git checkout -- src; same command -> ok without patch'],
                          'log': log, 'date': time.strftime('%Y-%m-%d')},
            'source': 'independent sub-agent given only the property text'}
    json.dump(meta, open(os.path.join(dst, 'meta.json'), 'w'), indent=1)
    ok = True
    print('kept as', dst)
finally:
    sh('git -C /repo worktree remove --force %s' % wt)
sys.exit(0 if ok else 1)
