#!/usr/bin/env python3
"""Regenerate the generated tables of DESIGN.md section 10 (between the markers) from the committed evidence files,
contracts/properties.json and seeded/RESULTS.json."""
import json
import os
import re

HERE = os.path.dirname(os.path.dirname(os.path.abspath(__file__)))
props = [json.loads(l) for l in open(os.path.join(HERE, 'properties.jsonl'))]
meta = json.load(open(os.path.join(HERE, 'contracts', 'properties.json')))
res_path = os.path.join(HERE, 'seeded', 'RESULTS.json')
res = json.load(open(res_path)) if os.path.exists(res_path) else {}


def table_checks():
    out = ["| id | functions under contract | lemmas | obligations | wall (quick) | not decided (short) |", "|---|---|---|---|---|---|"]
    for p in props:
        pid = p['id']
        try:
            ev = json.load(open(os.path.join(HERE, 'evidence', '%s.json' % pid)))
        except Exception:
            continue
        nd = '; '.join(x.split(':')[0].split('(')[0].strip()[:80] for x in meta[pid].get('not_decided', [])[:3])
        cov = ev['coverage']
        out.append("| %s | %d | %d | %d | %.0f s | %s |" % (pid, len(cov['functions_under_contract']), len(cov.get('lemmas_proved', [])),
                                                          cov['obligations'], ev['wall_s'], nd))
    return '\n'.join(out)


def classify(v):
    if not isinstance(v, dict):
        return ('?', '')
    if v['exit'] == 1:
        vio = v['violations'][0] if v['violations'] else ''
        proof = [x for x in v['violations'] if 'obligation=' in x and 'bounded replay' not in x]
        rep = [x for x in v['violations'] if 'oracle=' in x]
        if proof:
            d = proof[0].split('obligation=')[1].split(' no-failing')[0][:100]
            return ('proof' + ('+input' if 'no-failing-input-found' not in proof[0] else ''), d)
        if rep:
            return ('replay', rep[0].split('oracle=')[1].split(' input=')[0][:100])
        return ('proof', vio[:100])
    if v['exit'] == 2:
        return ('undecided', re.sub(r'\s+', ' ', v['last'])[:100])
    return ('missed', v['last'][:70])


def table_seeded():
    out = ["| change | result | failing obligation / oracle |", "|---|---|---|"]
    counts = {}
    for k in sorted(res):
        for pid, v in res[k].items():
            c, d = classify(v)
            counts[c.split('+')[0]] = counts.get(c.split('+')[0], 0) + 1
            out.append("| %s | %s | %s |" % (k, c, d.replace('|', '\\|')))
    out.append("")
    out.append("Totals: " + ", ".join("%s %d" % kv for kv in sorted(counts.items())) + ".")
    return '\n'.join(out)


def main():
    path = os.path.join(HERE, 'DESIGN.md')
    s = open(path).read()
    for name, fn in (('CHECKS', table_checks), ('SEEDED', table_seeded)):
        a, b = '<!-- BEGIN %s -->' % name, '<!-- END %s -->' % name
        if a in s and b in s:
            i, j = s.index(a) + len(a), s.index(b)
            s = s[:i] + '\n' + fn() + '\n' + s[j:]
    open(path, 'w').write(s)


if __name__ == '__main__':
    main()
