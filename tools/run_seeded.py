#!/usr/bin/env python3
"""Apply each seeded fault to /repo, run the checks, undo it.  usage: run_seeded.py [name-prefix ...] [--all-props]
Writes seeded/RESULTS.json (which checks catch which change)."""
import json, os, subprocess, sys, re
HERE = os.path.dirname(os.path.dirname(os.path.abspath(__file__)))
names = [a for a in sys.argv[1:] if not a.startswith('--')]
allprops = '--all-props' in sys.argv
man = json.load(open(os.path.join(HERE, 'MANIFEST.json')))
claimed = [c['property_id'] for c in man['checks']]
res_path = os.path.join(HERE, 'seeded', 'RESULTS.json')
results = json.load(open(res_path)) if os.path.exists(res_path) else {}
assert subprocess.run('git -C /repo status --porcelain', shell=True, stdout=subprocess.PIPE, text=True).stdout.strip() == '', '/repo not clean'
for d in sorted(os.listdir(os.path.join(HERE, 'seeded'))):
    p = os.path.join(HERE, 'seeded', d)
    if not os.path.isdir(p) or (names and not any(d.startswith(n) for n in names)):
        continue
    meta = json.load(open(os.path.join(p, 'meta.json')))
    props = claimed if allprops else [meta['property']]
    a = subprocess.run(['git', '-C', '/repo', 'apply', os.path.join(p, 'patch.diff')], stdout=subprocess.PIPE, stderr=subprocess.STDOUT, text=True)
    if a.returncode:
        print(d, 'PATCH DOES NOT APPLY', a.stdout); results[d] = {'error': 'patch does not apply'}; continue
    try:
        out = {}
        for pr in props:
            if pr not in claimed:
                out[pr] = 'not-claimed'; continue
            r = subprocess.run([os.path.join(HERE, 'check'), pr, '--no-evidence'], cwd=HERE, stdout=subprocess.PIPE, stderr=subprocess.STDOUT, text=True)
            vio = [l for l in r.stdout.split('\n') if l.startswith('VIOLATION')]
            out[pr] = {'exit': r.returncode, 'violations': [re.sub(r'replay=\S+ ', '', v) for v in vio][:4],
                       'last': r.stdout.strip().split('\n')[-1][:300]}
            print(d, pr, 'exit', r.returncode, (vio[0][:200] if vio else r.stdout.strip().split('\n')[-1][:200]))
        results[d] = out
    finally:
        subprocess.run('git -C /repo checkout -- . && git -C /repo clean -fdq -- src', shell=True)
json.dump(results, open(res_path, 'w'), indent=1, sort_keys=True)
