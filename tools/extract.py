"""Mechanical extraction of /repo/src functions into one Verus file.

The generated text of every function under contract is the repository text of
that function, byte for byte, plus
  * contract text spliced at structural positions only (after the signature,
    at a loop header / body begin / body end / after the loop, at the function
    body begin / end),
  * the dialect rewrites listed in DESIGN.md section 1 (each recorded).
Nothing is addressed by line number or by a regex over statements.
"""
import json
import os
import re
import sys
import hashlib

sys.path.insert(0, os.path.dirname(os.path.abspath(__file__)))
import rsparse  # noqa: E402
from rsparse import norm_ws  # noqa: E402


class ExtractError(Exception):
    """Tool / extraction problem: exit 2, never an alarm."""


SRC_ORDER = [
    'traits.rs', 'complex/mod.rs', 'complex/elementary.rs', 'complex/trigonometric.rs',
    'complex/hyperbolic.rs', 'constant.rs',
    'vector/mod.rs', 'vector/operations.rs', 'vector/functions.rs', 'vector/arithmetic.rs',
    'vector/vec_f64.rs', 'vector/vec_cmplx.rs',
    'matrix/mod.rs', 'matrix/operations.rs', 'matrix/arithmetic.rs', 'matrix/solve.rs',
    'matrix/functions.rs', 'tridiagonal.rs', 'banded.rs', 'sparse.rs',
    'polynomial/mod.rs', 'polynomial/arithmetic.rs', 'newton.rs', 'mesh1d.rs', 'mesh2d.rs',
]


# --------------------------------------------------------------------------
# contract files
# --------------------------------------------------------------------------
class FnSpec:
    def __init__(self, file, impl, name, origin):
        self.file = file
        self.impl = impl          # normalised impl header, 'trait X', or '-'
        self.name = name
        self.origin = origin      # "contracts/x.vspec:line"
        self.props = []
        self.sig = ''
        self.ret = 'r'
        self.loops = {}           # k -> {invariant|begin|end|after: text}
        self.body = {}            # begin|end -> text
        self.iters = set()
        self.stmts = {}           # k -> {before|after: text}
        self.lstmts = {}          # (loop, k) -> {before|after: text}
        self.r3 = []
        self.r4 = []
        self.r19 = []             # closure headers (contract of the k-th `.iter().map(|x| E).collect()` closure, `$x` = its parameter)
        self.replaces = []        # (rule, old, new)
        self.panics = {}          # 0 (every site) or k (k-th panic! of the body, 1-based) -> spec condition under which the panic is allowed
        self.external = False     # emit as external_body in every unit (trusted contract)
        self.noret = False
        self.used = False

    @property
    def key(self):
        return (self.file, self.impl, self.name)

    @property
    def ident(self):
        return '%s::%s::%s' % (self.file, short_impl(self.impl), self.name)


def short_impl(h):
    """Readable short form of an impl header for labels."""
    if h == '-':
        return '-'
    t = h
    t = re.sub(r'^impl\s*', '', t)
    # drop leading generic parameter list
    if t.startswith('<'):
        depth = 0
        for i, c in enumerate(t):
            if c == '<':
                depth += 1
            elif c == '>' and (i == 0 or t[i - 1] != '-'):
                depth -= 1
                if depth == 0:
                    t = t[i + 1:]
                    break
    t = t.strip()
    t = re.sub(r'\s+', '', t)
    return t


def parse_vspec(path, rel):
    specs = []
    raws = []
    traits = []
    cur = None
    section = None
    buf = []
    rawbuf = None
    rawprops = []

    def flush():
        nonlocal buf, section
        if cur is not None and section is not None:
            text = '\n'.join(buf).rstrip() + '\n' if buf else ''
            kind = section[0]
            if kind == 'sig':
                cur.sig += text
            elif kind == 'loop':
                cur.loops.setdefault(section[1], {}).setdefault(section[2], '')
                cur.loops[section[1]][section[2]] += text
            elif kind == 'body':
                cur.body[section[1]] = cur.body.get(section[1], '') + text
            elif kind == 'stmt':
                cur.stmts.setdefault(section[1], {}).setdefault(section[2], '')
                cur.stmts[section[1]][section[2]] += text
            elif kind == 'lstmt':
                cur.lstmts.setdefault((section[1], section[2]), {}).setdefault(section[3], '')
                cur.lstmts[(section[1], section[2])][section[3]] += text
        buf = []
        section = None

    with open(path) as f:
        lines = f.read().split('\n')
    for ln, line in enumerate(lines, 1):
        st = line.strip()
        if rawbuf is not None:
            if st == '@end':
                raws.append(('%s:%d' % (rel, rawstart), '\n'.join(rawbuf) + '\n', rawprops))
                rawbuf = None
            else:
                rawbuf.append(line)
            continue
        if st.startswith('@'):
            parts = st.split(None, 1)
            d = parts[0]
            arg = parts[1] if len(parts) > 1 else ''
            if d == '@raw':
                flush()
                rawbuf = []
                rawstart = ln
                rawprops = arg.split()
                continue
            if d in ('@fn', '@trait', '@impl'):
                flush()
                fields = [x.strip() for x in arg.split('|')]
                if d == '@fn':
                    if len(fields) != 3:
                        raise ExtractError('%s:%d: @fn needs file | impl header | name' % (rel, ln))
                    cur = FnSpec(fields[0], norm_ws(fields[1]), fields[2], '%s:%d' % (rel, ln))
                elif d == '@trait':
                    # trait-level splice: body begin text is inserted after the trait's `{`
                    cur = FnSpec(fields[0], 'trait ' + fields[1], '', '%s:%d' % (rel, ln))
                else:
                    # impl-level splice: body begin text is inserted after the impl's `{`
                    cur = FnSpec(fields[0], norm_ws(fields[1]), '', '%s:%d' % (rel, ln))
                specs.append(cur)
                continue
            if cur is None:
                raise ExtractError('%s:%d: directive outside @fn' % (rel, ln))
            if d == '@props':
                flush()
                cur.props = arg.split()
            elif d == '@sig':
                flush()
                section = ('sig',)
            elif d == '@ret':
                flush()
                cur.ret = arg.strip()
            elif d == '@noret':
                flush()
                cur.noret = True
            elif d == '@loop':
                flush()
                a = arg.split()
                if len(a) != 2 or a[1] not in ('invariant', 'begin', 'end', 'after', 'before'):
                    raise ExtractError('%s:%d: @loop K invariant|begin|end|after' % (rel, ln))
                section = ('loop', int(a[0]), a[1])
            elif d == '@stmt':
                flush()
                a = arg.split()
                if len(a) != 2 or a[1] not in ('before', 'after'):
                    raise ExtractError('%s:%d: @stmt K before|after' % (rel, ln))
                section = ('stmt', int(a[0]), a[1])
            elif d == '@lstmt':
                flush()
                a = arg.split()
                if len(a) != 3 or a[2] not in ('before', 'after'):
                    raise ExtractError('%s:%d: @lstmt LOOP K before|after' % (rel, ln))
                section = ('lstmt', int(a[0]), int(a[1]), a[2])
            elif d == '@body':
                flush()
                if arg.strip() not in ('begin', 'end'):
                    raise ExtractError('%s:%d: @body begin|end' % (rel, ln))
                section = ('body', arg.strip())
            elif d == '@iter':
                flush()
                cur.iters.update(int(x) for x in arg.split())
            elif d == '@external':
                flush()
                cur.external = True
            elif d == '@rewrite':
                flush()
                a = arg.split(None, 1)
                if a[0] == 'R3':
                    cur.r3 += split_list(a[1])
                elif a[0] == 'R4':
                    cur.r4 += split_list(a[1])
                elif a[0] == 'R19':
                    cur.r19.append(a[1].strip())
                else:
                    raise ExtractError('%s:%d: unknown rewrite %s' % (rel, ln, a[0]))
            elif d == '@panics':
                # `@panics only_if COND` / `@panics K only_if COND`: the (K-th) panic! of the body may be reached only when COND holds
                flush()
                mm = re.match(r'(?:(\d+)\s+)?only_if\s+(.*)$', arg)
                if not mm:
                    raise ExtractError('%s:%d: @panics [K] only_if COND' % (rel, ln))
                cur.panics[int(mm.group(1) or 0)] = mm.group(2).strip()
            elif d == '@replace':
                flush()
                mm = re.match(r'(\w+)\s+\|(.*)\|\s*=>\s*\|(.*)\|\s*$', arg)
                if not mm:
                    raise ExtractError('%s:%d: @replace RULE |old| => |new|' % (rel, ln))
                cur.replaces.append((mm.group(1), mm.group(2), mm.group(3)))
            elif d == '@end':
                flush()
                cur = None
            else:
                raise ExtractError('%s:%d: unknown directive %s' % (rel, ln, d))
        else:
            if section is not None:
                buf.append(line)
            elif st and not st.startswith('#'):
                raise ExtractError('%s:%d: text outside a section: %r' % (rel, ln, st))
    flush()
    return specs, raws


def split_list(t):
    """Items separated by ' ; ' (places may contain spaces)."""
    return [x.strip() for x in t.split(' ; ') if x.strip()]


def load_contracts(cdir):
    specs = {}
    raws = []
    for fn in sorted(os.listdir(cdir)):
        if fn.endswith('.vspec'):
            sp, rw = parse_vspec(os.path.join(cdir, fn), 'contracts/' + fn)
            for s in sp:
                if s.key in specs:
                    raise ExtractError('duplicate contract for %s (%s and %s)' % (s.key, s.origin, specs[s.key].origin))
                specs[s.key] = s
            raws += rw
    with open(os.path.join(cdir, 'prelude.rs')) as f:
        prelude = f.read()
    return specs, raws, prelude


# --------------------------------------------------------------------------
# output assembly with a line map
# --------------------------------------------------------------------------
class Out:
    def __init__(self):
        self.segs = []   # (text, tag)

    def src(self, text, file, offset, fnid=None):
        if text:
            self.segs.append((text, ('src', file, offset, fnid)))

    def splice(self, text, fnid, where):
        if text:
            if not text.endswith('\n'):
                text += '\n'
            self.segs.append((text, ('splice', fnid, where)))

    def gen(self, text, desc='gen', fnid=None):
        if text:
            self.segs.append((text, ('gen', desc, fnid)))

    def finish(self, srcs):
        """Return (text, linemap). linemap[line] = dict(kind=..., ...)."""
        text_parts = []
        linemap = {}
        line = 1
        labels = {}      # (fnid, label) -> [lines]
        for text, tag in self.segs:
            nl = text.count('\n')
            if tag[0] == 'src':
                _, file, off, fnid = tag
                s = srcs[file]
                base = s.count('\n', 0, off) + 1
                # the segment may start mid-line in the generated file
                for k in range(nl + 1):
                    linemap.setdefault(line + k, {'kind': 'src', 'file': file, 'line': base + k, 'fn': fnid})
            elif tag[0] == 'splice':
                _, fnid, where = tag
                cur = None
                for k, l in enumerate(text.split('\n')[:nl + 1]):
                    st = l.strip()
                    if st.startswith('//#'):
                        cur = st[3:].strip()
                        labels.setdefault((fnid, cur), [])
                    if st:
                        linemap[line + k] = {'kind': 'splice', 'fn': fnid, 'where': where, 'label': cur}
                        if cur is not None and not st.startswith('//'):
                            labels[(fnid, cur)].append(line + k)
            else:
                for k in range(nl + 1):
                    linemap.setdefault(line + k, {'kind': 'gen', 'desc': tag[1], 'fn': tag[2]})
            text_parts.append(text)
            line += nl
        return ''.join(text_parts), linemap, labels


# --------------------------------------------------------------------------
# rewrites
# --------------------------------------------------------------------------
class Rewriter:
    """Applies the dialect rewrites to a function's text (signature + body)."""

    def __init__(self, spec, log):
        self.spec = spec
        self.log = log

    def apply(self, text, part):
        spec = self.spec
        fid = spec.ident if spec else '?'
        m = rsparse.mask_code(text)
        # R1 panic! -> ohsl_panic
        out = []
        last = 0
        site = 0
        for mm in re.finditer(r'\bpanic!\s*\(', text):
            if not m[mm.start()]:
                continue
            site += 1
            out.append(text[last:mm.start()])
            cond = None
            if spec is not None and part == 'body':
                # a function whose contract states no rejection condition had no panic! when the contract was written:
                # a panic that appears in it later may never be reached (`only_if false`)
                cond = spec.panics.get(site, spec.panics.get(0)) if spec.panics else 'false'
                if cond is None:
                    cond = 'false'        # a site beyond those the contract names
            if cond is not None:
                # the panic is reachable only under the stated rejection condition (obligation: callee precondition)
                out.append('ohsl_panic_when(Ghost((%s)), ' % cond)
            else:
                out.append('ohsl_panic(')
            last = mm.end()
            self.log.append(('R1', fid, 'panic! -> ohsl_panic' + ('_when' if cond is not None else '')))
        out.append(text[last:])
        text = ''.join(out)
        # R2 &dyn Fn -> &impl Fn (signatures only)
        if part == 'sig' and '&dyn Fn' in text:
            text = text.replace('&dyn Fn', '&impl Fn')
            self.log.append(('R2', fid, '&dyn Fn -> &impl Fn'))
        if part == 'body' and 'thread::scope' in text:
            text = self.r8(text, fid)
        if part == 'body' and 'println!' in text:
            # R17  diagnostic `println!( .. );` statements are dropped (formatting / stdout are outside the verifier)
            def r17(mm):
                self.log.append(('R17', fid, 'println! statement dropped'))
                return mm.group(1) + '/* println! dropped (R17) */' + '\n' * mm.group(0).count('\n')
            text = re.sub(r'(?m)(^\s*)println!\s*\((?:[^;]|\n)*?\)\s*;', r17, text)
        if part == 'body' and 'f64::EPSILON' in text:
            # R16  f64::EPSILON -> f64_epsilon()  (associated constants of primitive types are unsupported)
            text = text.replace('f64::EPSILON', 'f64_epsilon()')
            # a local `const X: f64 = f64_epsilon();` becomes a `let` (a call is not a const expression)
            text = re.sub(r'\bconst(\s+\w+\s*:\s*f64\s*=\s*f64_epsilon\(\)\s*;)', r'let\1', text)
            self.log.append(('R16', fid, 'f64::EPSILON -> f64_epsilon()'))
        if part == 'body':
            # R5  X as f64  -> usize_to_f64(X)
            def r5(mm):
                self.log.append(('R5', fid, mm.group(0)))
                return 'usize_to_f64(%s)' % mm.group(1)
            text = re.sub(r'(\b[A-Za-z_]\w*\b|\([^()]*\))\s+as\s+f64\b', r5, text)
        if part == 'body':
            # R7a  `X.drain( A..B );` as a statement (iterator dropped at once) -> vec_remove_range(&mut X, A, B);
            def r7(mm):
                self.log.append(('R7', fid, mm.group(0)))
                return 'vec_remove_range(&mut %s, %s, %s);' % (mm.group(1), mm.group(2), mm.group(3))
            text = re.sub(r'(?m)(?<=[;{}\n])(\s*)([A-Za-z_][\w.]*)\.drain\(\s*([^;]+?)\s*\.\.\s*([^;.][^;]*?)\s*\)\s*;',
                          lambda mm: mm.group(1) + r7_fmt(self, fid, mm), text)
            # R15  `X.sort_by_key( |p| E );` -> ohsl_sort_by_key(X, |p| E, Ghost(|p| (E) as int));  the key expression is
            #      duplicated verbatim as a ghost spec closure so that the sort contract can speak about the key
            def r15(mm):
                self.log.append(('R15', fid, mm.group(0).strip()))
                sig = getattr(self, 'sig_text', '')
                tm = re.search(r'\b' + re.escape(mm.group(2)) + r'\s*:\s*&mut\s+Vec\s*<', sig)
                if not tm:
                    raise ExtractError('R15: cannot find the element type of %s in the signature' % mm.group(2))
                depth, j = 1, tm.end()
                while depth > 0:
                    depth += {'<': 1, '>': -1}.get(sig[j], 0)
                    j += 1
                elem = sig[tm.end():j - 1]
                return '%sohsl_sort_by_key(%s, |%s| %s, Ghost(|%s: %s| (%s) as int));' % (
                    mm.group(1), mm.group(2), mm.group(3), mm.group(4), mm.group(3), elem, mm.group(4))
            text = re.sub(r'(?m)(?<=[;{}\n])(\s*)([A-Za-z_]\w*)\.sort_by_key\(\s*\|\s*(\w+)\s*\|\s*([^;]+?)\s*\)\s*;', r15, text)
            # R18  `X.iter().position( |x| *x == V )` -> ohsl_position_eq(&X, &V)   (iterator adapters are outside the verifier;
            #      the std contract of `position` with an equality predicate is assumed, the surrounding code is verified)
            def r18(mm):
                self.log.append(('R18', fid, mm.group(0).strip()))
                return 'ohsl_position_eq(&%s, &%s)' % (mm.group(1), mm.group(3))
            text = re.sub(r'([A-Za-z_][\w.]*)\.iter\(\)\s*\.position\(\s*\|\s*(\w+)\s*\|\s*\*\2\s*==\s*([A-Za-z_]\w*)\s*\)', r18, text)
            # R7b  `for PAT in X.drain(..)` -> `for PAT in core::mem::take(X)` (X: &mut Vec)
            def r7b(mm):
                self.log.append(('R7', fid, mm.group(0)))
                return '%s vec_take(%s)' % (mm.group(1), mm.group(2))
            text = re.sub(r'(\bfor\s+\w+\s+in)\s+([A-Za-z_]\w*)\.drain\(\s*\.\.\s*\)', r7b, text)
        if spec is None:
            return text
        if part == 'body':
            for place in spec.r3:
                text = self.r3(text, place)
            for operand in spec.r4:
                text = self.r4(text, operand)
            if spec.r19:
                text = self.r19(text)
        for rule, old, new in spec.replaces:
            if part == 'sig':
                continue
            cnt = text.count(old)
            if cnt == 0:
                # the expression this rewrite was written for is gone (the body was edited): nothing to rewrite
                self.log.append((rule + '-skipped', fid, 'anchor |%s| not present' % old))
                continue
            if cnt != 1:
                raise ExtractError('%s: @replace %s anchor |%s| occurs %d times (need exactly 1)' % (spec.origin, rule, old, cnt))
            text = text.replace(old, new)
            self.log.append((rule, fid, '%s => %s' % (old, new)))
        return text

    def r19(self, text):
        """R19: `X.iter().map( |x| E ).collect()` -> `ohsl_map_collect(&X, HEADER { E })`.
        Iterator adapters are outside the verifier: the helper's contract (result has the length of X and its i-th element
        satisfies the closure's postcondition for X[i]) is the assumed meaning of iter/map/collect on a Vec; the closure body
        E is the source text, verified against HEADER (the closure contract the .vspec file states, `$x` = its parameter)."""
        k = 0
        while True:
            m = rsparse.mask_code(text)
            mm = None
            for c in re.finditer(r'([A-Za-z_][\w.]*)\.iter\(\)\s*\.map(\()\s*\|\s*(\w+)\s*\|', text):
                if m[c.start()]:
                    mm = c
                    break
            if not mm:
                break
            if k >= len(self.spec.r19):
                raise ExtractError('lost anchor: %s states %d closure contract(s) (R19), the body has more map closures'
                                   % (self.spec.origin, len(self.spec.r19)))
            op = mm.start(2)
            cp = rsparse.match_close(text, m, op)
            tail = re.match(r'\s*\.collect\(\s*\)', text[cp + 1:])
            if not tail:
                raise ExtractError('lost anchor: %s R19 expects .iter().map(..).collect()' % self.spec.origin)
            body = text[mm.end():cp].strip()
            header = self.spec.r19[k].replace('$x', mm.group(3))
            new = 'ohsl_map_collect(&%s, %s { %s })' % (mm.group(1), header, body)
            self.log.append(('R19', self.spec.ident, text[mm.start():cp + 1 + tail.end()].strip()))
            text = text[:mm.start()] + new + text[cp + 1 + tail.end():]
            k += 1
        if k != len(self.spec.r19):
            raise ExtractError('lost anchor: %s states %d closure contract(s) (R19), the body has %d map closures'
                               % (self.spec.origin, len(self.spec.r19), k))
        return text

    def r8(self, text, fid):
        """R8: sequentialise scoped threads.
        std::thread::scope(|s| { B }) -> { B };  s.spawn(|| { C }) -> { C };  h.join().unwrap() -> h;  num_cpus::get() -> num_cpus_get()
        ASSUMPTION (not proof): scoped threads that capture only shared borrows of immutable data and are all joined
        compute what their bodies compute when run one after the other in spawn order."""
        m = rsparse.mask_code(text)
        mm = re.search(r'std::thread::scope\(\s*\|\s*(\w+)\s*\|\s*\{', text)
        if not mm or not m[mm.start()]:
            raise ExtractError('R8: unexpected shape of thread::scope')
        sv = mm.group(1)
        ob = mm.end() - 1
        cb = rsparse.match_close(text, m, ob)
        cp = rsparse.skip_ws(text, m, cb + 1, len(text))
        if text[cp] != ')':
            raise ExtractError('R8: unexpected shape of thread::scope (closing)')
        text = text[:mm.start()] + text[ob:cb + 1] + text[cp + 1:]
        self.log.append(('R8', fid, 'thread::scope(|%s| {..}) -> {..}' % sv))
        while True:
            m = rsparse.mask_code(text)
            sm = re.search(r'\b' + re.escape(sv) + r'\.spawn\(\s*\|\|\s*\{', text)
            if not sm:
                break
            ob = sm.end() - 1
            cb = rsparse.match_close(text, m, ob)
            cp = rsparse.skip_ws(text, m, cb + 1, len(text))
            if text[cp] != ')':
                raise ExtractError('R8: unexpected shape of spawn')
            text = text[:sm.start()] + text[ob:cb + 1] + text[cp + 1:]
            self.log.append(('R8', fid, 'spawn(|| {..}) -> {..}'))
        n = text.count('.join().unwrap()')
        text = text.replace('.join().unwrap()', '')
        if n:
            self.log.append(('R8', fid, 'join().unwrap() dropped (%d)' % n))
        if 'num_cpus::get()' in text:
            text = text.replace('num_cpus::get()', 'num_cpus_get()')
            self.log.append(('R8', fid, 'num_cpus::get() -> num_cpus_get()'))
        return text

    def r3(self, text, place):
        """`PLACE op= EXPR;` -> `PLACE = PLACE op (EXPR);` for every occurrence."""
        # `X[*]` stands for X indexed by any bracket-free expression (the index written in the code is kept)
        place_re = re.escape(place).replace(r'\[\*\]', r'\[[^\[\]]*\]')
        pat = re.compile(r'(?<![\w.\]\)])(' + place_re + r')\s*([-+*/])=(?!=)')
        pos = 0
        n = 0
        while True:
            m = rsparse.mask_code(text)
            mm = pat.search(text, pos)
            if not mm:
                break
            if not m[mm.start()]:
                pos = mm.end()
                continue
            semi = rsparse.find_at_depth0(text, m, mm.end(), len(text), ';')
            if semi < 0:
                raise ExtractError('R3: no terminating ; for %s' % place)
            expr = text[mm.end():semi]
            new = '%s = %s %s (%s)' % (mm.group(1), mm.group(1), mm.group(2), expr.strip())
            # keep the number of newlines so that the line map stays exact
            new += '\n' * (text[mm.start():semi].count('\n') - new.count('\n'))
            text = text[:mm.start()] + new + text[semi:]
            pos = mm.start() + len(new)
            n += 1
            self.log.append(('R3', self.spec.ident, '%s %s=' % (place, mm.group(2))))
        if n == 0:
            raise ExtractError('%s: R3 place %r not found' % (self.spec.origin, place))
        return text

    def r4(self, text, operand):
        """prefix `-OPERAND` -> `f64_neg(OPERAND)`."""
        pat = re.compile(r'-\s*' + re.escape(operand) + r'(?![\w(\[.])')
        m = rsparse.mask_code(text)
        res = []
        last = 0
        n = 0
        for mm in pat.finditer(text):
            if not m[mm.start()]:
                continue
            # prefix position: previous code char is an operator / opener / start
            j = mm.start() - 1
            while j >= 0 and (text[j].isspace() or not m[j]):
                j -= 1
            if j >= 0 and text[j] not in '(,=+-*/{;[<>&|!':
                # could be `return -x`
                if not re.search(r'\b(return|in|else)$', text[:j + 1]):
                    continue
            res.append(text[last:mm.start()])
            res.append('f64_neg(%s)' % operand)
            last = mm.end()
            n += 1
            self.log.append(('R4', self.spec.ident, '-%s' % operand))
        res.append(text[last:])
        if n == 0:
            raise ExtractError('%s: R4 operand %r not found in prefix-minus position' % (self.spec.origin, operand))
        return ''.join(res)


# --------------------------------------------------------------------------
# generator
# --------------------------------------------------------------------------
HEADER = '''// GENERATED by /verif/tools/extract.py from /repo/src -- do not edit.
#![feature(allocator_api)]
#![allow(unused_imports, unused_variables, unused_mut, dead_code, unused_assignments, unused_parens, non_snake_case, unused_braces)]
use vstd::prelude::*;
use vstd::std_specs::ops::*;
use vstd::std_specs::cmp::*;
use core::ops::{Add, Div, Mul, Neg, Sub, AddAssign, DivAssign, MulAssign, SubAssign, Index, IndexMut};
use core::cmp::Ordering;
use std::mem;
#[allow(dead_code)] fn real() {}
verus! {
'''

FOOTER = '''
} // verus!
fn main() {}
'''



# --------------------------------------------------------------------------
# anchors: statement / loop heads recorded with the contracts (contracts/anchors.json) so that ordinals can be
# re-aligned when statements were inserted or removed, and a splice never lands on a different statement
# --------------------------------------------------------------------------
def stmt_head(text):
    t = ' '.join(text.strip().split())
    mm = re.match(r'for\s+(.+?)\s+in\b', t)
    if mm:
        return 'for %s in' % mm.group(1)
    for kw in ('while', 'loop', 'if', 'match', 'return'):
        if re.match(kw + r'\b', t):
            return kw
    cut = len(t)
    for ch in ('(', '{', ';'):
        i = t.find(ch)
        if 0 <= i < cut:
            cut = i
    mm = re.search(r'(?<![=!<>+\-*/])=(?!=)', t)      # plain or compound assignment: keep the place, drop the operator
    if mm and mm.start() < cut:
        cut = mm.start()
        while cut > 0 and t[cut - 1] in '+-*/ ':
            cut -= 1
    return t[:cut].strip()[:60]


def align(old, new):
    """Map positions of `old` to positions of `new` (1-based) through the matching blocks of a sequence alignment."""
    import difflib
    sm = difflib.SequenceMatcher(None, old, new, autojunk=False)
    mp = {}
    for a, b, n in sm.get_matching_blocks():
        for k in range(n):
            mp[a + k + 1] = b + k + 1
    return mp

class Generator:
    def __init__(self, repo, cdir):
        self.repo = repo
        self.cdir = cdir
        self.specs, self.raws, self.prelude = load_contracts(cdir)
        try:
            self.anchors = json.load(open(os.path.join(cdir, 'anchors.json')))
        except Exception:
            self.anchors = {}
        # headers are matched exactly first; if the bounds of an impl header were edited, fall back to the header
        # without its generic parameter list (self type / trait only)
        self.loose = {}
        for (f, h, n), sp in list(self.specs.items()):
            self.loose.setdefault((f, short_impl(h), n), []).append(sp)
        self.srcs = {}
        self.masks = {}
        self.items = {}
        for rel in SRC_ORDER:
            p = os.path.join(repo, 'src', rel)
            if not os.path.exists(p):
                raise ExtractError('lost source file %s' % rel)
            with open(p) as f:
                s = f.read()
            self.srcs[rel] = s
            try:
                m = rsparse.mask_code(s)
                self.masks[rel] = m
                self.items[rel] = rsparse.parse_items(s, m, 0, len(s))
            except rsparse.ParseError as e:
                raise ExtractError('cannot read %s: %s' % (rel, e))
        extra = sorted(set(self.list_src()) - set(SRC_ORDER) - {'lib.rs'})
        self.extra_files = extra

    def rekey(self, rel, header):
        """If no contract names `header` exactly, re-key the contracts whose loose header matches."""
        if any(k[0] == rel and k[1] == header for k in self.specs):
            return
        sh = short_impl(header)
        for (f, h, n), sp in list(self.specs.items()):
            if f == rel and h != header and short_impl(h) == sh and not sp.used and h != '-' and not h.startswith('trait '):
                # only if the exact header no longer exists in the file
                if not any(it.kind == 'impl' and it.name == h for it in self.items[rel]):
                    del self.specs[(f, h, n)]
                    sp.impl = header
                    self.specs[(f, header, n)] = sp
                    self.rewrites.append(('header', sp.ident, 'impl header bounds changed: matched loosely'))

    def list_src(self):
        res = []
        root = os.path.join(self.repo, 'src')
        for d, _, fs in os.walk(root):
            for f in fs:
                if f.endswith('.rs'):
                    res.append(os.path.relpath(os.path.join(d, f), root))
        return res

    def source_hash(self):
        h = hashlib.sha256()
        for rel in SRC_ORDER:
            h.update(rel.encode())
            h.update(self.srcs[rel].encode())
        return h.hexdigest()

    # ------------------------------------------------------------------
    KNOWN_TYPES = {'Matrix': 'Matrix', 'Mat64': 'Matrix', 'Vector': 'Vector', 'Vec64': 'Vector', 'Banded': 'Banded', 'Tridiagonal': 'Tridiagonal',
                   'Sparse': 'Sparse', 'Polynomial': 'Polynomial', 'Complex': 'Complex', 'Cmplx': 'Complex', 'Mesh1D': 'Mesh1D',
                   'Mesh2D': 'Mesh2D', 'Newton': 'Newton'}
    OPS = [(r'[^=!<>+\-*/]=[^=]', None), (r'\+=', 'add_assign'), (r'-=', 'sub_assign'), (r'\*=', 'mul_assign'), (r'/=', 'div_assign'),
           (r'\+(?!=)', 'add'), (r'(?<![eE(,=<>+\-*/\s])\s*-(?![=>])', 'sub'), (r'\*(?!=)', 'mul'), (r'/(?![=/*])', 'div'),
           (r'(?:^|[(,=<>+\-*/\s])-\s*[\w(]', 'neg'), (r'\[', 'index'), (r'\]\s*[-+*/]?=(?!=)', 'index_mut'),
           (r'==', 'eq'), (r'!=', 'ne'), (r'[<>]=?', 'partial_cmp')]

    def _types_in(self, text):
        return {self.KNOWN_TYPES[w] for w in re.findall(r'\b[A-Z][A-Za-z0-9]*\b', text) if w in self.KNOWN_TYPES}

    def closure_of(self, unit):
        """Functions under contract that the unit's functions call, transitively (an over-approximation by method /
        function / operator NAME, filtered by the container types the caller mentions; element types - Complex and
        the primitive trait impls of traits.rs - are always admissible).  They are verified in the unit's file and a
        failure in one of them counts for the property: a property depends on the helpers its routines call."""
        byname = {}
        for sp in self.specs.values():
            if sp.name and not sp.external:
                byname.setdefault(sp.name, []).append(sp)
        # source text of every function that has a contract
        bodies = {}
        def walk(items, rel, header):
            s = self.srcs[rel]
            for it in items:
                if it.kind == 'impl':
                    walk(it.children, rel, rsparse.norm_ws(it.name))
                elif it.kind == 'trait':
                    walk(it.children, rel, 'trait ' + it.name)
                elif it.kind == 'fn' and it.body_open is not None:
                    sp = self.specs.get((rel, header, it.name))
                    if sp is not None:
                        m = self.masks[rel]
                        txt = ''.join(c if m[it.code_start + i] else ' ' for i, c in enumerate(s[it.code_start:it.end]))
                        bodies[sp.ident] = (sp, header, txt)
        for rel in SRC_ORDER:
            walk(self.items[rel], rel, '-')
        def callees(sp, header, txt):
            names = set(re.findall(r'(?:\.|::|\b)([a-z_][a-z0-9_]*)\s*(?:::<[^>()]*>)?\(', txt))
            body = txt[txt.find('{'):] if '{' in txt else txt
            for pat, nm in self.OPS:
                if nm and re.search(pat, body):
                    names.add(nm)
            if 'clone' in names or '.clone()' in txt:
                names.add('clone')
            types = self._types_in(header + ' ' + txt)
            generic = bool(re.search(r'<\s*T\b', header))
            res = []
            for nm in names:
                for c in byname.get(nm, []):
                    if c.ident == sp.ident:
                        continue
                    ctypes = self._types_in(c.impl)
                    if not ctypes:                      # trait impls for primitives (traits.rs), free functions
                        if c.file == 'traits.rs' or c.file == sp.file:
                            res.append(c)
                        continue
                    # the type the callee is implemented FOR decides (`impl Tr<Rhs> for Self` / `impl Self`);
                    # for a primitive Self (`impl Mul<Matrix<f64>> for f64`) the right-hand side type does
                    selfpart = c.impl.rsplit(' for ', 1)[1] if ' for ' in c.impl else c.impl
                    stypes = self._types_in(selfpart) or ctypes
                    if stypes <= types:
                        res.append(c)
                    elif stypes == {'Complex'} and generic:
                        res.append(c)
            return res
        start = [sp for sp in self.specs.values() if sp.name and set(sp.props) & set(unit)]
        seen = {sp.ident for sp in start}
        todo = list(start)
        clos = set()
        while todo:
            sp = todo.pop()
            b = bodies.get(sp.ident)
            if not b:
                continue
            for c in callees(*b):
                if c.ident not in seen:
                    seen.add(c.ident)
                    clos.add(c.ident)
                    todo.append(c)
        return clos

    def generate(self, unit=None, vacuity=False, closure=True):
        """unit: set of property ids whose functions are verified (None = all); with `closure` the functions they call
        (transitively, closure_of) are verified as well.
        Returns dict(text, linemap, labels, fns, dropped, rewrites)."""
        self.closure = self.closure_of(unit) if (unit is not None and closure) else set()
        out = Out()
        self.rewrites = []
        self.fninfo = {}     # fnid -> dict(spec, props, verified, file, src_lines)
        self.dropped = []
        for s in self.specs.values():
            s.used = False
        out.gen(HEADER, 'header')
        out.gen('// ---- contracts/prelude.rs ----\n', 'prelude')
        out.gen(self.prelude if self.prelude.endswith('\n') else self.prelude + '\n', 'prelude')
        self.lemmas = []
        for origin, text, rprops in self.raws:
            for lm in re.finditer(r'(?m)^\s*(?:pub\s+)?proof\s+fn\s+(\w+)', text):
                self.lemmas.append({'name': lm.group(1), 'props': rprops, 'origin': origin})
            out.gen('// ---- raw %s ----\n' % origin, 'raw')
            if rprops and unit is not None and not (set(rprops) & set(unit)):
                # lemmas of other properties: assumed in this unit (proved in the units that own them and in the thorough tier)
                text = re.sub(r'(?m)^(\s*)(pub\s+)?proof\s+fn\b', lambda mm: mm.group(1) + '#[verifier::external_body] ' + (mm.group(2) or '') + 'proof fn', text)
            out.gen(text, 'raw:' + origin)
        for rel in SRC_ORDER:
            out.gen('\n// ======== src/%s ========\n' % rel, 'banner')
            self.emit_file(out, rel, unit, vacuity)
        out.gen(FOOTER, 'footer')
        for s in self.specs.values():
            if not s.used:
                # the function a contract was written for no longer exists (removed, renamed or inlined): nothing of it is
                # emitted and no caller can refer to it; it is recorded like a lost anchor, so only its own obligations are
                # undecided and every other function of the unit is still verified
                msg = ('lost item: contract %s for %s | %s | %s matches nothing in /repo/src'
                       % (s.origin, s.file, s.impl, s.name))
                tagged = unit is None or bool(set(s.props) & set(unit))
                self.fninfo[s.ident] = {'props': s.props, 'verified': False, 'file': s.file, 'closure': False, 'src_lines': None,
                                        'external': s.external, 'origin': s.origin, 'has_requires': False, 'vac_exempt': True,
                                        'reanchored': False, 'lost_anchor': msg, 'in_scope': (not s.external) and tagged}
        text, linemap, labels = out.finish(self.srcs)
        return {'text': text, 'linemap': linemap, 'labels': labels, 'fns': self.fninfo,
                'dropped': self.dropped, 'rewrites': self.rewrites, 'lemmas': self.lemmas}

    # ------------------------------------------------------------------
    def emit_file(self, out, rel, unit, vacuity):
        s = self.srcs[rel]
        for it in self.items[rel]:
            if it.kind in ('use', 'mod'):
                continue
            if it.kind in ('struct', 'enum'):
                # derives are dropped (Verus attaches no spec to them); doc comments kept
                attrs = re.sub(r'#\[derive\([^\]]*\)\]\s*', '', it.attrs)
                if attrs != it.attrs:
                    self.rewrites.append(('R11', rel + '::' + it.name, 'derive attribute dropped'))
                out.gen(attrs, 'attrs')
                body = s[it.code_start:it.end]
                # R13: private fields are emitted `pub` (visibility only: everything lives in one module,
                # and Verus refuses field access in public contracts of a type with private fields)
                body2 = re.sub(r'(?m)^(\s*)(?!pub\b)(?!//)([a-z_][A-Za-z0-9_]*\s*:)', r'\1pub \2', body)
                if body2 != body:
                    self.rewrites.append(('R13', rel + '::' + it.name, 'private fields emitted pub'))
                out.src(body2 + '\n\n', rel, it.code_start)
            elif it.kind == 'type':
                out.src(s[it.start:it.end] + '\n', rel, it.start)
            elif it.kind in ('const', 'static'):
                t = s[it.code_start:it.end]
                if re.search(r'=\s*\w+(::<[^>]*>)?::\w+\s*\(', t):
                    t2 = re.sub(r'^(pub\s+)?const\b', lambda mm: (mm.group(1) or '') + 'exec const', t)
                    # a const built by `Cmplx::new(lit, lit)` gets its value as a postcondition (Verus const syntax)
                    cm = re.search(r'=\s*Cmplx::new\(\s*([-0-9.eE_]+)\s*,\s*([-0-9.eE_]+)\s*\)\s*;\s*$', t2)
                    if cm:
                        t2 = t2[:cm.start()] + ' ensures %s == cx(%sf64, %sf64) { Cmplx::new( %s, %s ) }' % (
                            it.name, cm.group(1), cm.group(2), cm.group(1), cm.group(2))
                    self.rewrites.append(('R12', rel + '::' + it.name, 'const -> exec const'))
                    out.gen(it.attrs)
                    # R12 keeps the text on the same lines
                    out.src(t2 + '\n', rel, it.code_start)
                else:
                    out.src(s[it.start:it.end] + '\n', rel, it.start)
            elif it.kind == 'trait':
                self.emit_trait(out, rel, it, unit, vacuity)
            elif it.kind == 'impl':
                self.emit_impl(out, rel, it, unit, vacuity)
            elif it.kind == 'macro_rules':
                continue
            elif it.kind == 'macro_call':
                self.expand_macro(out, rel, it, unit, vacuity)
            elif it.kind == 'fn':
                self.emit_fn(out, rel, '-', it, unit, vacuity, indent='')
            else:
                raise ExtractError('%s: unsupported item kind %s' % (rel, it.kind))

    def emit_trait(self, out, rel, it, unit, vacuity):
        s = self.srcs[rel]
        key = (rel, 'trait ' + it.name, '')
        tsp = self.specs.get(key)
        out.src(s[it.start:it.body_open + 1] + '\n', rel, it.start)
        if tsp is not None:
            tsp.used = True
            out.splice(tsp.body.get('begin', ''), 'trait ' + it.name, 'trait-begin')
        pos = it.body_open + 1
        for ch in it.children:
            if ch.kind == 'fn':
                sp = self.specs.get((rel, 'trait ' + it.name, ch.name))
                if sp is not None and ch.body_open is None:
                    sp.used = True
                    sig = s[ch.start:ch.end - 1]
                    sig = self.name_ret(sig, sp, rel)
                    out.src(sig, rel, ch.start)
                    out.gen('\n')
                    out.splice(sp.sig, sp.ident, 'sig')
                    out.gen(';\n')
                    continue
            out.src(s[ch.start:ch.end] + '\n', rel, ch.start)
        out.gen('}\n\n')

    def emit_impl(self, out, rel, it, unit, vacuity):
        s = self.srcs[rel]
        header = it.name
        self.rekey(rel, header)
        fns = [c for c in it.children if c.kind == 'fn']
        if fns:
            have = [c for c in fns if (rel, header, c.name) in self.specs and c.name]
            if not have:
                for c in fns:
                    self.dropped.append('%s::%s::%s' % (rel, short_impl(header), c.name))
                return
        out.src(s[it.start:it.body_open + 1] + '\n', rel, it.start)
        isp = self.specs.get((rel, header, ''))
        if isp is not None:
            isp.used = True
            out.splice(isp.body.get('begin', ''), 'impl ' + short_impl(header), 'impl-begin')
        is_trait_impl = re.search(r'\bfor\b', header) is not None
        sib_props = sorted({p for c in fns for p in (self.specs[(rel, header, c.name)].props
                                                      if (rel, header, c.name) in self.specs else [])})
        for ch in it.children:
            if ch.kind == 'fn':
                if (rel, header, ch.name) in self.specs:
                    self.emit_fn(out, rel, header, ch, unit, vacuity, indent='    ')
                elif is_trait_impl:
                    # A method of a trait impl under contract that has no contract of its own (e.g. an
                    # overridden provided method): emitted verbatim so that it is checked against the
                    # trait's own specification (vstd); it belongs to the properties of its siblings.
                    sp = FnSpec(rel, header, ch.name, 'auto (trait impl member without contract)')
                    sp.props = sib_props
                    sp.noret = True
                    self.specs[(rel, header, ch.name)] = sp
                    try:
                        self.emit_fn(out, rel, header, ch, unit, vacuity, indent='    ')
                    finally:
                        del self.specs[(rel, header, ch.name)]
                else:
                    self.dropped.append('%s::%s::%s' % (rel, short_impl(header), ch.name))
            elif ch.kind in ('type', 'const'):
                out.src('    ' + s[ch.code_start:ch.end] + '\n', rel, ch.code_start)
            else:
                raise ExtractError('%s: unsupported impl member %s' % (rel, ch.kind))
        out.gen('}\n\n')

    # ------------------------------------------------------------------
    def name_ret(self, sig, sp, rel):
        """`-> RET` becomes `-> (r: RET)` so that contracts can name the result."""
        m = rsparse.mask_code(sig)
        fnpos = re.search(r'\bfn\b', sig).end()
        p = rsparse.find_at_depth0(sig, m, fnpos, len(sig), '(')
        # skip a generic parameter list that contains parentheses (none here) -- find_at_depth0 is enough
        close = rsparse.match_close(sig, m, p)
        q = rsparse.skip_ws(sig, m, close + 1, len(sig))
        if sig.startswith('->', q) and not sp.noret:
            r0 = rsparse.skip_ws(sig, m, q + 2, len(sig))
            wm = None
            for mm in re.finditer(r'\bwhere\b', sig[r0:]):
                if m[r0 + mm.start()]:
                    wm = r0 + mm.start()
                    break
            r1 = wm if wm is not None else len(sig)
            ret = sig[r0:r1]
            stripped = ret.rstrip()
            tail = ret[len(stripped):]
            if stripped == '!':
                return sig
            sig = sig[:r0] + '(' + sp.ret + ': ' + stripped + ')' + tail + sig[r1:]
        return sig

    def fn_heads(self, rel, fn):
        """Heads of the top-level statements, of the loops (pre-order) and of every loop body's statements."""
        s, m = self.srcs[rel], self.masks[rel]
        loops = rsparse.find_loops(s, m, fn.body_open + 1, fn.body_close)
        stmts = rsparse.split_statements(s, m, fn.body_open + 1, fn.body_close)
        return {'stmts': [stmt_head(s[a:b]) for a, b in stmts],
                'loops': [stmt_head(s[lp.kw_pos:lp.open]) for lp in loops],
                'lbody': {str(k): [stmt_head(s[a:b]) for a, b in rsparse.split_statements(s, m, lp.open + 1, lp.close)]
                          for k, lp in enumerate(loops, 1)}}

    def remap_spec(self, sp, anch, cur):
        """The function's statements / loops differ from the recorded ones: move every ordinal the contract uses to the
        statement / loop with the same head (sequence alignment); an ordinal whose statement is gone is a lost anchor."""
        import copy
        lm = align(anch['loops'], cur['loops'])
        st = align(anch['stmts'], cur['stmts'])
        sp2 = copy.copy(sp)

        def lost(what):
            return ExtractError('lost anchor: %s: %s of %s no longer exists (statements were restructured)' % (sp.origin, what, sp.name))
        sp2.loops = {}
        for k, d in sp.loops.items():
            if k not in lm:
                raise lost('loop %d' % k)
            sp2.loops[lm[k]] = d
        sp2.iters = set()
        for k in sp.iters:
            if k not in lm:
                raise lost('loop %d' % k)
            sp2.iters.add(lm[k])
        sp2.stmts = {}
        for k, d in sp.stmts.items():
            if k not in st:
                raise lost('statement %d' % k)
            sp2.stmts[st[k]] = d
        sp2.lstmts = {}
        for (lk, k), d in sp.lstmts.items():
            if lk not in lm:
                raise lost('loop %d' % lk)
            bm = align(anch['lbody'].get(str(lk), []), cur['lbody'].get(str(lm[lk]), []))
            if k not in bm:
                raise lost('statement %d of loop %d' % (k, lk))
            sp2.lstmts[(lm[lk], bm[k])] = d
        return sp2

    def emit_fn(self, out, rel, header, fn, unit, vacuity, indent, src_override=None):
        """A contract whose structural anchors no longer fit the function (a loop / statement / rewrite place it names
        is gone: the body was restructured) does not take the whole unit down: the function alone is emitted
        `external_body` with its signature contract (assumed), recorded as `lost_anchor`, and the check treats it as
        undecided by proof - every other function of the unit is still verified."""
        mark = len(out.segs)
        nrw = len(self.rewrites)
        try:
            return self._emit_fn(out, rel, header, fn, unit, vacuity, indent, None)
        except ExtractError as e:
            msg = str(e)
            if not any(k in msg for k in ('lost anchor', 'R3 place', 'R3:', 'cannot find `in`', 'anchor |')):
                raise
            del out.segs[mark:]
            del self.rewrites[nrw:]
            return self._emit_fn(out, rel, header, fn, unit, vacuity, indent, msg)

    def _emit_fn(self, out, rel, header, fn, unit, vacuity, indent, degrade):
        s = self.srcs[rel]
        sp = self.specs.get((rel, header, fn.name))
        if sp is None:
            self.dropped.append('%s::%s::%s' % (rel, short_impl(header), fn.name))
            return
        sp.used = True
        fnid = sp.ident
        reanchored = False
        anch = self.anchors.get(fnid)
        if anch and not degrade and fn.body_open is not None and (sp.loops or sp.stmts or sp.lstmts or sp.iters):
            cur = self.fn_heads(rel, fn)
            if cur != anch:
                sp = self.remap_spec(sp, anch, cur)
                reanchored = True
        tagged = unit is None or bool(set(sp.props) & set(unit))
        in_scope = (not sp.external) and (tagged or fnid in getattr(self, 'closure', set()))
        verified = in_scope and not degrade
        rw = Rewriter(sp, self.rewrites) if not degrade else Rewriter(None, self.rewrites)
        if fn.body_open is None:
            raise ExtractError('%s: function %s has no body' % (rel, fn.name))
        # attributes + doc comments
        attrs = s[fn.start:fn.code_start]
        out.src(indent + attrs.rstrip() + ('\n' if attrs.strip() else ''), rel, fn.start, fnid)
        if not verified:
            out.gen(indent + '#[verifier::external_body]\n', 'external_body', fnid)
        sig = s[fn.code_start:fn.body_open]
        rw.sig_text = sig
        sig = rw.apply(sig, 'sig')
        sig = self.name_ret(sig, sp, rel)
        out.src(indent + sig.rstrip() + '\n', rel, fn.code_start, fnid)
        out.splice(sp.sig, fnid, 'sig')
        start_line = s.count('\n', 0, fn.start) + 1
        end_line = s.count('\n', 0, fn.end) + 1
        self.fninfo[fnid] = {'props': sp.props, 'verified': verified, 'file': rel, 'closure': verified and not tagged,
                             'src_lines': [start_line, end_line], 'external': sp.external,
                             'origin': sp.origin, 'has_requires': bool(re.search(r'\brequires\b', sp.sig)),
                             'vac_exempt': 'const' in getattr(fn, 'quals', []), 'reanchored': reanchored}
        if degrade:
            self.fninfo[fnid]['lost_anchor'] = degrade
            self.fninfo[fnid]['in_scope'] = in_scope
            out.src(indent + rw.apply(s[fn.body_open:fn.body_close + 1], 'body') + '\n\n', rel, fn.body_open, fnid)
            return
        if vacuity and 'const' not in getattr(fn, 'quals', []):
            out.gen(indent + '{\n' + indent + '    proof { assert(false); }\n' + indent + '    ohsl_unreached()\n' + indent + '}\n\n',
                    'vacuity', fnid)
            return
        # body with loop / body splices
        m = self.masks[rel]
        loops = rsparse.find_loops(s, m, fn.body_open + 1, fn.body_close)
        self.fninfo[fnid]['unannotated_loops'] = sum(1 for k in range(1, len(loops) + 1) if not sp.loops.get(k, {}).get('invariant'))
        for k in sp.loops:
            if k < 1 or k > len(loops):
                raise ExtractError('lost anchor: %s refers to loop %d, function %s has %d loops'
                                   % (sp.origin, k, fn.name, len(loops)))
        for k in sp.iters:
            if k < 1 or k > len(loops) or loops[k - 1].kind != 'for':
                raise ExtractError('lost anchor: %s @iter %d is not a for loop' % (sp.origin, k))
        # insertion points: offset -> list of (order, kind, text)
        ins = {}

        def add(off, order, kind, text):
            ins.setdefault(off, []).append((order, kind, text))
        for k, lp in enumerate(loops, 1):
            d = sp.loops.get(k, {})
            if k in sp.iters:
                mm = re.compile(r'\bin\b').search(s, lp.kw_pos, lp.open)
                while mm and not m[mm.start()]:
                    mm = re.compile(r'\bin\b').search(s, mm.end(), lp.open)
                if not mm:
                    raise ExtractError('cannot find `in` of for loop %d in %s' % (k, fn.name))
                add(mm.end(), 0, 'gen', ' __it%d:' % k)
            if d.get('before'):
                add(lp.kw_pos, 0, 'splice:loop%d-before' % k, d['before'])
            if d.get('invariant'):
                add(lp.open, 0, 'splice:loop%d-invariant' % k, '\n' + d['invariant'])
            if d.get('begin'):
                add(lp.open + 1, 1, 'splice:loop%d-begin' % k, '\n' + d['begin'])
            if d.get('end'):
                add(lp.close, 0, 'splice:loop%d-end' % k, '\n' + d['end'])
            if d.get('after'):
                add(lp.close + 1, 2, 'splice:loop%d-after' % k, '\n' + d['after'])
        for (lk, k), d in sp.lstmts.items():
            if lk < 1 or lk > len(loops):
                raise ExtractError('lost anchor: %s refers to loop %d, function %s has %d loops' % (sp.origin, lk, fn.name, len(loops)))
            lst = rsparse.split_statements(s, m, loops[lk - 1].open + 1, loops[lk - 1].close)
            if k < 1 or k > len(lst):
                raise ExtractError('lost anchor: %s refers to statement %d of loop %d, which has %d statements'
                                   % (sp.origin, k, lk, len(lst)))
            if d.get('before'):
                add(lst[k - 1][0], 0, 'splice:loop%d-stmt%d-before' % (lk, k), d['before'])
            if d.get('after'):
                add(lst[k - 1][1], 3, 'splice:loop%d-stmt%d-after' % (lk, k), '\n' + d['after'])
        if sp.stmts:
            stmts = rsparse.split_statements(s, m, fn.body_open + 1, fn.body_close)
            for k, d in sp.stmts.items():
                if k < 1 or k > len(stmts):
                    raise ExtractError('lost anchor: %s refers to statement %d, function %s has %d top-level statements'
                                       % (sp.origin, k, fn.name, len(stmts)))
                if d.get('before'):
                    add(stmts[k - 1][0], 0, 'splice:stmt%d-before' % k, d['before'])
                if d.get('after'):
                    add(stmts[k - 1][1], 3, 'splice:stmt%d-after' % k, '\n' + d['after'])
        if sp.body.get('begin'):
            add(fn.body_open + 1, 0, 'splice:body-begin', '\n' + sp.body['begin'])
        if sp.body.get('end'):
            add(fn.body_close, 1, 'splice:body-end', '\n' + sp.body['end'])
        pos = fn.body_open
        offs = sorted(ins)
        first = True
        # the body text is rewritten as a whole first (rewrites never add or remove newlines
        # and never cross a splice point), then cut at the splice offsets.
        body = s[fn.body_open:fn.body_close + 1]
        newbody, offmap = self.rewrite_with_map(rw, body)
        cuts = [o - fn.body_open for o in offs]
        last = 0
        for o, c in zip(offs, cuts):
            nc = offmap(c)
            seg = newbody[last:nc]
            out.src((indent if first else '') + seg, rel, fn.body_open + last_src(last, offmap, body), fnid)
            first = False
            for order, kind, text in sorted(ins[o], key=lambda x: x[0]):
                if kind == 'gen':
                    out.gen(text, 'iter', fnid)
                else:
                    out.splice(text, fnid, kind[7:])
            last = nc
        out.src((indent if first else '') + newbody[last:] + '\n\n', rel, fn.body_open + last_src(last, offmap, body), fnid)

    def rewrite_with_map(self, rw, body):
        """Apply rewrites; return new text and a map from old offsets to new offsets.
        The map is exact at positions outside rewritten spans (computed by diffing)."""
        new = rw.apply(body, 'body')
        if new == body:
            return new, (lambda c: c)
        import difflib
        sm = difflib.SequenceMatcher(None, body, new, autojunk=False)
        blocks = sm.get_matching_blocks()

        def offmap(c):
            for a, b, n in blocks:
                if a <= c <= a + n:
                    return b + (c - a)
            # inside a rewritten span: snap to the next matching block
            for a, b, n in blocks:
                if a >= c:
                    return b
            return len(new)
        offmap.blocks = blocks
        return new, offmap

    # ------------------------------------------------------------------
    def expand_macro(self, out, rel, it, unit, vacuity):
        """R9: expand the three identity/signed/marker macros of traits.rs for f64 and usize."""
        s = self.srcs[rel]
        defs = {d.name: d for d in self.items[rel] if d.kind == 'macro_rules'}
        if it.name not in defs:
            raise ExtractError('%s: macro %s! has no macro_rules in this file' % (rel, it.name))
        d = defs[it.name]
        dtext = s[d.body_open + 1:d.body_close]
        mm = re.match(r'\s*\((.*?)\)\s*=>\s*\(\s*\$\(\s*(.*)\)\*\s*\)\s*;?\s*$', dtext, re.S)
        if not mm:
            raise ExtractError('%s: macro_rules %s has an unexpected shape' % (rel, it.name))
        pattern, body = mm.group(1), mm.group(2)
        body_off = d.body_open + 1 + mm.start(2)
        args = s[it.body_open + 1:it.body_close]
        binds = {}
        if it.name == 'impl_identity':
            am = re.match(r'\s*(\w+)\s+for\s+([\w\s]+?),\s*(\w+)\s*,\s*(.+?)\s*$', args, re.S)
            if not am:
                raise ExtractError('%s: cannot read impl_identity! arguments' % rel)
            binds = {'name': am.group(1), 'method': am.group(3), 'v': am.group(4)}
            types = am.group(2).split()
        elif it.name == 'impl_signed':
            am = re.match(r'\s*([\w\s]+?),\s*(.+?)\s*$', args, re.S)
            binds = {'v': am.group(2)}
            types = am.group(1).split()
        elif it.name == 'impl_trait':
            am = re.match(r'\s*(\w+)\s+for\s+([\w\s]+?)\s*$', args, re.S)
            binds = {'name': am.group(1)}
            types = am.group(2).split()
        else:
            raise ExtractError('%s: unknown macro %s!' % (rel, it.name))
        for t in types:
            if t not in ('f64', 'usize'):
                continue
            text = body
            for k, v in binds.items():
                text = re.sub(r'\$' + k + r'\b', v, text)
            text = re.sub(r'\$t\b', t, text)
            self.rewrites.append(('R9', rel, '%s! expanded for %s' % (it.name, t)))
            # parse the expansion as an impl item and emit it through the normal path
            m = rsparse.mask_code(text)
            its = rsparse.parse_items(text, m, 0, len(text))
            if len(its) != 1 or its[0].kind != 'impl':
                raise ExtractError('%s: expansion of %s! is not one impl' % (rel, it.name))
            imp = its[0]
            # register the expansion as a pseudo source file so that line maps point at the macro body
            pseudo = '%s#%s!%s@%d' % (rel, it.name, t, it.start)
            self.srcs[pseudo] = text
            self.masks[pseudo] = m
            header = imp.name
            fns = [c for c in imp.children if c.kind == 'fn']
            out.gen('// R9: expansion of %s!(%s) for %s\n' % (it.name, norm_ws(args), t), 'macro')
            if not fns:
                out.gen(text.strip() + '\n\n', 'macro')
                continue
            out.gen(text[imp.code_start:imp.body_open + 1] + '\n', 'macro')
            isp = self.specs.get((rel, header, ''))
            if isp is not None:
                isp.used = True
                out.splice(isp.body.get('begin', ''), 'impl ' + short_impl(header), 'impl-begin')
            for ch in imp.children:
                if ch.kind == 'fn':
                    key = (rel, header, ch.name)
                    if key not in self.specs:
                        raise ExtractError('no contract for macro-generated %s | %s | %s' % key)
                    # emit_fn looks specs up by (rel, header, name) but reads text from the pseudo file
                    self.specs[(pseudo, header, ch.name)] = self.specs[key]
                    self.emit_fn(out, pseudo, header, ch, unit, vacuity, indent='    ')
                    del self.specs[(pseudo, header, ch.name)]
            out.gen('}\n\n', 'macro')


def r7_fmt(rw, fid, mm):
    rw.log.append(('R7', fid, mm.group(0).strip()))
    return 'vec_remove_range(&mut %s, %s, %s);' % (mm.group(2), mm.group(3), mm.group(4))


def last_src(last_new, offmap, body):
    """Approximate source offset for a new-text offset (exact outside rewritten spans)."""
    blocks = getattr(offmap, 'blocks', None)
    if blocks is None:
        return last_new
    for a, b, n in blocks:
        if b <= last_new <= b + n:
            return a + (last_new - b)
    return last_new


if __name__ == '__main__':
    import argparse
    import json
    ap = argparse.ArgumentParser()
    ap.add_argument('--repo', default='/repo')
    ap.add_argument('--contracts', default=os.path.join(os.path.dirname(os.path.abspath(__file__)), '..', 'contracts'))
    ap.add_argument('--unit', default=None)
    ap.add_argument('--vacuity', action='store_true')
    ap.add_argument('-o', default='-')
    a = ap.parse_args()
    g = Generator(a.repo, a.contracts)
    res = g.generate(set(a.unit.split(',')) if a.unit else None, a.vacuity)
    if a.o == '-':
        sys.stdout.write(res['text'])
    else:
        with open(a.o, 'w') as f:
            f.write(res['text'])
        print(json.dumps({k: v for k, v in res['fns'].items()}, indent=1)[:2000])
