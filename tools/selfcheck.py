#!/usr/bin/env python3
"""setup_cmd: nothing to build; verify that the tools the checks need are present."""
import shutil, subprocess, sys
ok = True
for t in ('verus',):
    if not shutil.which(t):
        print('missing tool:', t); ok = False
if ok:
    try:
        out = subprocess.run(['verus', '--version'], stdout=subprocess.PIPE, stderr=subprocess.STDOUT, text=True, timeout=60).stdout
        print(out.strip().split('\n')[1] if '\n' in out else out)
    except Exception as e:
        print('verus not runnable:', e); ok = False
# warm the build of the bounded replay crate (used by thorough runs, undecided cases and C09); failure is not fatal
try:
    import os
    sys.path.insert(0, os.path.dirname(os.path.abspath(__file__)))
    import replay
    print('replay oracle binary:', replay.build('/repo'))
except Exception as e:
    print('replay crate not built:', e)
sys.exit(0 if ok else 1)
