"""Minimal structural Rust reader used by the extractor.

It does NOT parse Rust expressions.  It only
  * masks comments / string / char literals so that brace matching and keyword
    search see code only,
  * splits a file into top-level items (use, struct, type, trait, impl, const,
    macro_rules!, macro invocation),
  * splits an `impl`/`trait` body into `fn` items (and the rest),
  * finds, inside a function body, the loops in pre-order together with the
    byte offsets of their header end, body `{` and matching `}`.
Everything is addressed by byte offsets into the original text, so emitted text
is always a verbatim slice of the repository source.
"""
import re


class ParseError(Exception):
    pass


def mask_code(s):
    """Return a bytearray m with m[i] == 1 iff s[i] is code (not comment/string/char literal)."""
    n = len(s)
    m = bytearray([1]) * n
    i = 0
    while i < n:
        c = s[i]
        if c == '/' and i + 1 < n and s[i + 1] == '/':
            j = s.find('\n', i)
            if j < 0:
                j = n
            for k in range(i, j):
                m[k] = 0
            i = j
        elif c == '/' and i + 1 < n and s[i + 1] == '*':
            depth = 1
            j = i + 2
            while j < n and depth > 0:
                if s.startswith('/*', j):
                    depth += 1
                    j += 2
                elif s.startswith('*/', j):
                    depth -= 1
                    j += 2
                else:
                    j += 1
            for k in range(i, j):
                m[k] = 0
            i = j
        elif c == '"':
            j = i + 1
            while j < n and s[j] != '"':
                if s[j] == '\\':
                    j += 1
                j += 1
            j += 1
            for k in range(i, min(j, n)):
                m[k] = 0
            i = j
        elif c == 'r' and i + 1 < n and s[i + 1] in '#"' and (i == 0 or not (s[i - 1].isalnum() or s[i - 1] == '_')):
            j = i + 1
            h = 0
            while j < n and s[j] == '#':
                h += 1
                j += 1
            if j < n and s[j] == '"':
                end = s.find('"' + '#' * h, j + 1)
                if end < 0:
                    raise ParseError('unterminated raw string')
                end += 1 + h
                for k in range(i, end):
                    m[k] = 0
                i = end
            else:
                i += 1
        elif c == "'":
            # char literal or lifetime
            if i + 1 < n and s[i + 1] == '\\':
                j = s.find("'", i + 2)
                # handle '\''
                if j == i + 2:
                    j = s.find("'", j + 1)
                for k in range(i, j + 1):
                    m[k] = 0
                i = j + 1
            elif i + 2 < n and s[i + 2] == "'":
                for k in range(i, i + 3):
                    m[k] = 0
                i += 3
            else:
                i += 1  # lifetime
        else:
            i += 1
    return m


OPEN = {'(': ')', '[': ']', '{': '}'}
CLOSE = {')': '(', ']': '[', '}': '{'}


def match_close(s, m, i):
    """s[i] is an opening bracket (code). Return index of the matching close."""
    assert s[i] in OPEN and m[i]
    stack = [s[i]]
    j = i + 1
    n = len(s)
    while j < n:
        if m[j]:
            c = s[j]
            if c in OPEN:
                stack.append(c)
            elif c in CLOSE:
                if not stack or stack[-1] != CLOSE[c]:
                    raise ParseError('bracket mismatch at %d' % j)
                stack.pop()
                if not stack:
                    return j
        j += 1
    raise ParseError('unterminated bracket at %d' % i)


def find_at_depth0(s, m, start, end, chars):
    """First index in [start,end) of a code char in `chars` at ()/[]/{}-depth 0 (relative to start)."""
    j = start
    while j < end:
        if m[j]:
            c = s[j]
            if c in chars:
                return j
            if c in OPEN:
                j = match_close(s, m, j)
        j += 1
    return -1


def find_body_brace(s, m, start, end):
    """First code '{' at ()/[] depth 0 in [start,end)."""
    j = start
    while j < end:
        if m[j]:
            c = s[j]
            if c == '{':
                return j
            if c in '([':
                j = match_close(s, m, j)
        j += 1
    return -1


WORD = re.compile(r'[A-Za-z_][A-Za-z0-9_]*')


def skip_ws(s, m, i, end):
    while i < end and (not m[i] or s[i].isspace()):
        i += 1
    return i


def norm_ws(t):
    return ' '.join(t.split())


class Item:
    """A syntactic item: kind in {use, mod, struct, type, trait, impl, fn, const, macro_rules, macro_call, other}."""

    def __init__(self, kind, name, start, code_start, end, header_end=None, body_open=None, body_close=None):
        self.kind = kind
        self.name = name
        self.start = start            # including leading attributes / doc comments
        self.code_start = code_start  # first token after attributes
        self.end = end                # one past last char
        self.header_end = header_end  # for braced items: index of '{'
        self.body_open = body_open
        self.body_close = body_close
        self.children = []
        self.attrs = ''

    def __repr__(self):
        return 'Item(%s %s %d..%d)' % (self.kind, self.name, self.start, self.end)


def parse_items(s, m, start, end):
    """Split region [start,end) into items."""
    items = []
    i = start
    while True:
        i0 = skip_ws_keep_comments(s, m, i, end)
        if i0 >= end:
            break
        item_start = i0
        j = skip_ws(s, m, i0, end)
        if j >= end:
            break
        # attributes
        while j < end and s[j] == '#' and m[j]:
            k = j + 1
            if s[k] == '!':
                k += 1
            k = skip_ws(s, m, k, end)
            if s[k] != '[':
                raise ParseError('bad attribute at %d' % j)
            j = match_close(s, m, k) + 1
            j = skip_ws(s, m, j, end)
        code_start = j
        # visibility
        t = j
        mm = WORD.match(s, t)
        if mm and mm.group(0) == 'pub':
            t = skip_ws(s, m, mm.end(), end)
            if s[t] == '(':
                t = skip_ws(s, m, match_close(s, m, t) + 1, end)
            mm = WORD.match(s, t)
        quals = []
        while mm and mm.group(0) in ('const', 'unsafe', 'async', 'extern', 'default') and True:
            # `const fn`, but also `const NAME: ...` (an item). Look ahead.
            nxt = skip_ws(s, m, mm.end(), end)
            m2 = WORD.match(s, nxt)
            if mm.group(0) == 'const' and not (m2 and m2.group(0) in ('fn', 'unsafe', 'async', 'extern')):
                break
            quals.append(mm.group(0))
            t = nxt
            mm = m2
        if not mm:
            raise ParseError('cannot classify item at %d: %r' % (j, s[j:j + 40]))
        kw = mm.group(0)
        after = skip_ws(s, m, mm.end(), end)
        if kw in ('use', 'mod', 'type', 'const', 'static', 'extern'):
            # `mod x { }` not used in this repository at item level except `pub mod x;`
            semi = find_at_depth0(s, m, after, end, ';{')
            if semi < 0:
                raise ParseError('unterminated item at %d' % j)
            if s[semi] == '{':
                close = match_close(s, m, semi)
                # const X: T = S { .. };  -> continue to ';'
                semi2 = find_at_depth0(s, m, close + 1, end, ';')
                if kw == 'mod':
                    e = close + 1
                else:
                    e = semi2 + 1
            else:
                e = semi + 1
            nm = WORD.match(s, after)
            it = Item(kw, nm.group(0) if nm else '', item_start, code_start, e)
        elif kw in ('struct', 'enum', 'union'):
            nm = WORD.match(s, after)
            p = find_at_depth0(s, m, after, end, ';{')
            if s[p] == '{':
                close = match_close(s, m, p)
                e = close + 1
                it = Item(kw, nm.group(0), item_start, code_start, e, p, p, close)
            else:
                e = p + 1
                it = Item(kw, nm.group(0), item_start, code_start, e)
        elif kw in ('trait', 'impl'):
            p = find_body_brace(s, m, after, end)
            close = match_close(s, m, p)
            if kw == 'trait':
                nm = WORD.match(s, after).group(0)
            else:
                nm = norm_ws(s[t:p])
            it = Item(kw, nm, item_start, code_start, close + 1, p, p, close)
            it.children = parse_items(s, m, p + 1, close)
        elif kw == 'fn':
            nm = WORD.match(s, after).group(0)
            p = find_at_depth0(s, m, after, end, ';{')
            # a `{` can only appear after the parameter list (parens are skipped)
            if s[p] == ';':
                it = Item('fn', nm, item_start, code_start, p + 1)
            else:
                close = match_close(s, m, p)
                it = Item('fn', nm, item_start, code_start, close + 1, p, p, close)
        elif kw == 'macro_rules':
            bang = skip_ws(s, m, mm.end(), end)
            assert s[bang] == '!'
            nmpos = skip_ws(s, m, bang + 1, end)
            nm = WORD.match(s, nmpos).group(0)
            p = find_at_depth0(s, m, nmpos, end, '{([')
            close = match_close(s, m, p)
            e = close + 1
            if s[p] != '{':
                e = find_at_depth0(s, m, e, end, ';') + 1
            it = Item('macro_rules', nm, item_start, code_start, e, p, p, close)
        else:
            # macro invocation  name!( ... );
            bang = skip_ws(s, m, mm.end(), end)
            if bang < end and s[bang] == '!':
                p = find_at_depth0(s, m, bang + 1, end, '{([')
                close = match_close(s, m, p)
                e = close + 1
                if s[p] != '{':
                    e = find_at_depth0(s, m, e, end, ';') + 1
                it = Item('macro_call', kw, item_start, code_start, e, p, p, close)
            else:
                raise ParseError('cannot classify item at %d: %r' % (j, s[j:j + 40]))
        it.attrs = s[item_start:code_start]
        it.quals = quals
        items.append(it)
        i = it.end
    return items


def skip_ws_keep_comments(s, m, i, end):
    """Skip whitespace only (comments stay attached to the following item)."""
    while i < end and s[i].isspace():
        i += 1
    return i


class Loop:
    def __init__(self, kind, kw_pos, open_pos, close_pos):
        self.kind = kind        # for / while / loop
        self.kw_pos = kw_pos
        self.open = open_pos    # index of '{'
        self.close = close_pos  # index of matching '}'


LOOPKW = re.compile(r'\b(for|while|loop)\b')


def find_loops(s, m, start, end):
    """Loops inside [start,end) in pre-order (textual order of the keyword)."""
    loops = []
    for mm in LOOPKW.finditer(s, start, end):
        p = mm.start()
        if not m[p]:
            continue
        # not a field / method named `loop`, and not a label `'a: loop`
        if p > 0 and s[p - 1] in '.':
            continue
        kw = mm.group(1)
        if kw == 'for':
            # `for<'a>` HRTB or `impl X for Y` cannot occur inside a fn body here; check `in`
            pass
        o = find_body_brace(s, m, mm.end(), end)
        if o < 0:
            raise ParseError('loop without body at %d' % p)
        c = match_close(s, m, o)
        loops.append(Loop(kw, p, o, c))
    return loops


BLOCKKW = re.compile(r'(if|for|while|loop|match|unsafe)\b')


def split_statements(s, m, start, end):
    """Top-level statements of a block body [start,end): list of (stmt_start, stmt_end) offsets.
    A statement ends at a `;` at depth 0, or at the `}` that closes a block-like expression statement
    (if/for/while/loop/match/{...}) unless `else` follows.  The trailing expression (no `;`) is the last entry."""
    res = []
    i = skip_ws(s, m, start, end)
    while i < end:
        st = i
        mm = BLOCKKW.match(s, i)
        blocklike = bool(mm) or s[i] == '{'
        j = i
        while j < end:
            if m[j]:
                c = s[j]
                if c == ';':
                    j += 1
                    break
                if c in '([':
                    j = match_close(s, m, j) + 1
                    continue
                if c == '{':
                    j = match_close(s, m, j) + 1
                    if blocklike:
                        k = skip_ws(s, m, j, end)
                        if s.startswith('else', k) and not (s[k + 4].isalnum() or s[k + 4] == '_'):
                            j = k + 4
                            continue
                        if k < end and s[k] == ';':
                            j = k + 1
                        break
                    continue
            j += 1
        res.append((st, j))
        i = skip_ws(s, m, j, end)
    return res
