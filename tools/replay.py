"""Concrete replay search: run the bounded oracles of /verif/replay against the real crate.

search(pid, failure, repo, seed) -> dict(oracle, input, observed, expected, cmd) or None
Bounded (small exhaustive shapes + seeded random values); never counted as proof.
"""
import json
import os
import shutil
import subprocess

HERE = os.path.dirname(os.path.dirname(os.path.abspath(__file__)))
CRATE = os.path.join(HERE, 'replay')
TARGET = os.path.join(HERE, '.work', 'replay-target')
_built = {}
stats = {'runs': 0, 'cases': 0, 'cmds': []}   # totals over every oracle run of this process


def build(repo):
    repo = os.path.abspath(repo)
    if _built.get(repo):
        return _built[repo]
    work = os.path.join(HERE, '.work', 'replay-crate')
    shutil.rmtree(work, ignore_errors=True)
    os.makedirs(os.path.join(work, 'src'))
    for f in ('main.rs', 'q.rs'):
        shutil.copy(os.path.join(CRATE, 'src', f), os.path.join(work, 'src', f))
    toml = open(os.path.join(CRATE, 'Cargo.toml.in')).read().replace('@REPO@', repo)
    open(os.path.join(work, 'Cargo.toml'), 'w').write(toml)
    lock = os.path.join(repo, 'Cargo.lock')
    if os.path.exists(lock):
        shutil.copy(lock, os.path.join(work, 'Cargo.lock'))
    env = dict(os.environ, CARGO_TARGET_DIR=TARGET, CARGO_NET_OFFLINE='true')
    p = subprocess.run(['cargo', 'build', '--offline', '-q'], cwd=work, env=env, stdout=subprocess.PIPE, stderr=subprocess.STDOUT, text=True, timeout=900)
    if p.returncode != 0:
        # the real crate does not build (or its API changed): no oracle available
        _built[repo] = None
        return None
    _built[repo] = os.path.join(TARGET, 'debug', 'ohsl_replay')
    return _built[repo]


ORACLE_TIMEOUT = 120          # seconds; every oracle run on the unchanged tree takes milliseconds (C16: a few seconds)
ORACLE_MEMORY = 8 << 30       # bytes of address space; the oracles need a few megabytes


def _limit_memory():
    try:
        import resource
        resource.setrlimit(resource.RLIMIT_AS, (ORACLE_MEMORY, ORACLE_MEMORY))
    except Exception:
        pass


def run_oracle(binary, pid, seed, prefix=None, timeout=ORACLE_TIMEOUT):
    cmd = (prefix or []) + [binary, pid, str(seed)]
    where = 'oracle %s seed %s%s' % (pid, seed, (' under ' + ' '.join(prefix)) if prefix else '')
    try:
        p = subprocess.run(cmd, stdout=subprocess.PIPE, stderr=subprocess.DEVNULL, text=True, timeout=timeout, preexec_fn=_limit_memory)
    except subprocess.TimeoutExpired:
        # a run that does not finish means the library no longer terminates (or became absurdly slow) on an input the property covers
        return [{'property': pid, 'oracle': 'the bounded oracle did not finish within %d s (every run on the unchanged tree takes well under 10 s)' % timeout,
                 'input': where, 'observed': 'no result after %d s' % timeout, 'expected': 'termination', 'bounded': True, 'fatal': True}]
    if p.returncode not in (0, 1) or '"summary":true' not in p.stdout:
        # killed by a signal, aborted (allocation failure under the %d GiB address-space limit, stack overflow) or died without its summary line
        return [{'property': pid, 'oracle': 'the bounded oracle was killed or aborted (stack overflow, allocation beyond %d GiB, abort): the library does not survive an input the property covers' % (ORACLE_MEMORY >> 30),
                 'input': where, 'observed': 'exit status %s, no summary line' % p.returncode, 'expected': 'a normal run', 'bounded': True, 'fatal': True}]
    res = []
    for line in p.stdout.split('\n'):
        line = line.strip()
        if line.startswith('{'):
            try:
                d = json.loads(line)
            except Exception:
                continue
            if d.get('summary'):
                # measured by the oracle binary: loop iterations, each evaluating the real crate on one generated input / edit step
                stats['runs'] += 1
                stats['cases'] += int(d.get('cases', 0))
                stats['cmds'].append(' '.join(os.path.basename(c) if i == len(prefix or []) else c for i, c in enumerate(cmd)) + ' -> %d cases, %d findings' % (d.get('cases', 0), d.get('findings', 0)))
            else:
                res.append(d)
    return res


def search_all(pid, repo, seeds):
    """All findings of the property's oracle over the given seeds (deduplicated), each with a re-run command."""
    binary = build(repo)
    if not binary:
        return None
    prefixes = [None]
    if pid == 'C16' and shutil.which('taskset'):
        ncpu = os.cpu_count() or 1
        prefixes = [None] + [['taskset', '-c', '0-%d' % (k - 1)] for k in (1, 2, 3, 5, 6, 7, 12) if k <= ncpu]
    res, seen = [], set()
    fatal = False
    for sd in seeds:
        for pre in prefixes:
            if fatal:
                break      # a run that hung or died: the remaining runs would only repeat it (and cost their full time limit)
            for f in run_oracle(binary, pid, sd, pre):
                fatal = fatal or bool(f.get('fatal'))
                key = (f.get('oracle'), f.get('input'))
                if key in seen:
                    continue
                seen.add(key)
                f = dict(f)
                f['cmd'] = 'cd %s && python3 tools/replay.py %s %d%s' % (HERE, pid, sd, (' --taskset ' + pre[2]) if pre else '')
                f['kind'] = 'bounded replay oracle run against the real crate'
                res.append(f)
    return res


def search(pid, failure, repo, seed, seeds=None):
    res = search_all(pid, repo, seeds or [seed or 1, (seed or 1) + 1])
    return res[0] if res else None


if __name__ == '__main__':
    import sys
    pid = sys.argv[1]
    sd = int(sys.argv[2]) if len(sys.argv) > 2 else 1
    pre = None
    if '--taskset' in sys.argv:
        pre = ['taskset', '-c', sys.argv[sys.argv.index('--taskset') + 1]]
    b = build('/repo')
    if not b:
        print('replay crate does not build against /repo')
        sys.exit(2)
    res = run_oracle(b, pid, sd, pre)
    for r in res:
        print(json.dumps(r))
    sys.exit(1 if res else 0)
