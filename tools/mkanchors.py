#!/usr/bin/env python3
"""Record the statement / loop heads of every function whose contract uses positional anchors (contracts/anchors.json).
Run after a contract's ordinals were (re)written against the current /repo; the file is committed with the contracts."""
import json, os, sys
HERE = os.path.dirname(os.path.dirname(os.path.abspath(__file__)))
sys.path.insert(0, os.path.join(HERE, 'tools'))
import extract, rsparse
repo = sys.argv[1] if len(sys.argv) > 1 else '/repo'
cdir = sys.argv[2] if len(sys.argv) > 2 else os.path.join(HERE, 'contracts')
g = extract.Generator(repo, cdir)
g.anchors = {}
out = {}
def walk(items, rel, header):
    for it in items:
        if it.kind == 'impl':
            walk(it.children, rel, rsparse.norm_ws(it.name))
        elif it.kind == 'trait':
            walk(it.children, rel, 'trait ' + it.name)
        elif it.kind == 'fn' and it.body_open is not None:
            sp = g.specs.get((rel, header, it.name))
            if sp is not None and (sp.loops or sp.stmts or sp.lstmts or sp.iters):
                out[sp.ident] = g.fn_heads(rel, it)
for rel in extract.SRC_ORDER:
    walk(g.items[rel], rel, '-')
json.dump(out, open(os.path.join(cdir, 'anchors.json'), 'w'), indent=0, sort_keys=True)
print(len(out), 'functions with positional anchors recorded')
