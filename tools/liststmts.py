#!/usr/bin/env python3
"""List top-level statements and loops (with their statements) of a function: tools/liststmts.py <file> <fn-name> [occurrence]"""
import sys, os
sys.path.insert(0, os.path.dirname(os.path.abspath(__file__)))
import rsparse
rel, name = sys.argv[1], sys.argv[2]
occ = int(sys.argv[3]) if len(sys.argv) > 3 else 1
s = open('/repo/src/' + rel).read(); m = rsparse.mask_code(s)
def walk(items):
    for it in items:
        if it.kind == 'fn' and it.name == name: yield it
        yield from walk(it.children)
fn = list(walk(rsparse.parse_items(s, m, 0, len(s))))[occ - 1]
def show(a, b, ind):
    for k, (x, y) in enumerate(rsparse.split_statements(s, m, a, b), 1):
        print('%s%2d: %s' % (ind, k, ' '.join(s[x:y].split())[:90]))
show(fn.body_open + 1, fn.body_close, '')
for k, lp in enumerate(rsparse.find_loops(s, m, fn.body_open + 1, fn.body_close), 1):
    print('loop %d: %s' % (k, ' '.join(s[lp.kw_pos:lp.open].split())))
    show(lp.open + 1, lp.close, '      ')
