#!/usr/bin/env python3
"""Regenerate MANIFEST.json from contracts/properties.json (single source of per-property meta data)."""
import json, os
HERE = os.path.dirname(os.path.dirname(os.path.abspath(__file__)))
props = [json.loads(l) for l in open(os.path.join(HERE, 'properties.jsonl'))]
meta = json.load(open(os.path.join(HERE, 'contracts', 'properties.json')))
claimed = [p['id'] for p in props if meta.get(p['id'], {}).get('claimed')]
COMMON_NOTE = ("Trusted base: Verus 0.2026.09.13 + bundled Z3; the mechanical extractor tools/extract.py and its rewrites R1-R19 "
               "(DESIGN.md sections 1 and 10.3); the hypothesis predicates on the element type (h_num etc.: operators total and equal to their "
               "spec terms, clone is identity, == decides equality) which are idealisations for f64; every external_body / "
               "assume_specification / uninterpreted spec function listed in the evidence file's trusted_base. ")
m = {
 "version": 1,
 "setup_cmd": "python3 tools/selfcheck.py",
 "hooks": {"guard": "none", "enable": "no hooks: nothing in /repo is instrumented; every check re-extracts the functions under contract from /repo/src",
           "baseline_off_cmd": "cd /repo && cargo test --workspace --no-fail-fast --offline", "source_commits": [], "add_only": True},
 "engines": [{"name": "verus-contracts", "path": "check", "serves_properties": claimed,
              "kind_free_text": "contract-based deductive verification: Verus 0.2026.09.13 (Z3) on functions extracted mechanically from /repo/src on every run, contracts spliced from /verif/contracts/*.vspec"}],
 "checks": [],
 "notes": "See DESIGN.md. Exit 2 of a check means tool/extraction problem or undecided (rlimit), never an alarm. known_findings.json lists repaired defects (fixed: entries suppress nothing).",
 "not_applicable": []
}
for p in props:
    pid = p['id']
    mt = meta.get(pid, {})
    if mt.get('claimed'):
        nd = mt.get('not_decided', [])
        m['checks'].append({
            "property_id": pid,
            "quick_cmd": "./check %s --tier quick" % pid,
            "thorough_cmd": "./check %s --tier thorough" % pid,
            "evidence_file": "evidence/%s.json" % pid,
            "replay_cmd_template": "./replay_violation {path}",
            "engine": "verus-contracts",
            "level_claimed": {"category": "proof",
                              "text": mt.get('level_text', '') + (" NOT decided by this check: " + "; ".join(nd) + "." if nd else ""),
                              "design_ref": "DESIGN.md section 4, " + pid},
            "level_note": COMMON_NOTE + " ".join(mt.get('assumptions', [])) + (" Functions of the anchors not under contract: " + ", ".join(mt['unverified_functions']) + "." if mt.get('unverified_functions') else ""),
            "technique": mt.get('technique', "contract-based deductive verification (Verus/Z3) of the real functions, extracted mechanically each run"),
        })
    else:
        m['not_applicable'].append({"property_id": pid, "reason": mt.get('na_reason', "contracts for this property are not yet committed (work in progress; see DESIGN.md section 8)")})
json.dump(m, open(os.path.join(HERE, 'MANIFEST.json'), 'w'), indent=1)
print('claimed:', claimed)
